"""Calls for the facts domain: struct pack/unpack obligations, builtins, context inlining
of in-repo callees, may-write effects (mix-in of Absint)."""
from __future__ import annotations

import ast
from typing import Any, Dict, FrozenSet, List, Optional, Set, Tuple

from .aval import AVal, NOCONST, St, iv_join
from .index import AnalysisError, FuncInfo, Unknown, parse_struct_fmt, unparse, walk_no_nested
from .lin import Facts, Lin, atom_deps
from .absint_stmt import MUTATORS

DETACHERS = {"asyncio.ensure_future", "asyncio.create_task", "asyncio.run_coroutine_threadsafe"}
DETACH_METHODS = {"call_later", "call_soon", "call_at", "run_in_executor", "call_soon_threadsafe", "create_task"}
STRUCT_FUNCS = {"struct.pack": "pack", "struct.unpack": "unpack", "struct.unpack_from": "unpack_from",
                "struct.calcsize": "calcsize"}


def _self_rooted(atoms) -> bool:
    for a in atoms:
        inner = a[4:-1] if a.startswith("len(") and a.endswith(")") else a
        if not inner.startswith("self."):
            return False
        if atom_deps(a)[0] - {"self"}:
            return False
    return bool(atoms)


class Origin:
    __slots__ = ("func", "node", "kind", "exc", "message", "file", "line")

    def __init__(self, func: str, node: ast.AST, kind: str, exc: str, message: str, file: str, line: int) -> None:
        self.func = func
        self.node = node
        self.kind = kind
        self.exc = exc
        self.message = message
        self.file = file
        self.line = line

    @property
    def key(self):
        return (self.func, id(self.node), self.kind, self.exc)

    def __repr__(self) -> str:
        return f"{self.file}:{self.line} {self.func}: `{unparse(self.node)[:90]}` may raise {self.exc} ({self.message})"


class CallMixin:
    # ------------------------------------------------------------ may-write summaries
    def writes(self, fi: FuncInfo) -> Tuple[FrozenSet[str], bool]:
        cache = self.__dict__.setdefault("_writes_cache", {})
        if fi.qualname in cache:
            return cache[fi.qualname]
        cache[fi.qualname] = (frozenset(), False)  # recursion guard
        attrs: Set[str] = set()
        all_ = False
        for n in walk_no_nested(fi.node):
            if isinstance(n, ast.Attribute) and isinstance(n.ctx, (ast.Store, ast.Del)):
                attrs.add(n.attr)
            elif isinstance(n, ast.Subscript) and isinstance(n.ctx, (ast.Store, ast.Del)):
                b = n.value
                while isinstance(b, ast.Subscript):
                    b = b.value
                if isinstance(b, ast.Attribute):
                    attrs.add(b.attr)
            elif isinstance(n, ast.Call) and isinstance(n.func, ast.Attribute) and n.func.attr in MUTATORS:
                b = n.func.value
                while isinstance(b, ast.Subscript):
                    b = b.value
                if isinstance(b, ast.Attribute):
                    attrs.add(b.attr)
            elif isinstance(n, ast.Call) and isinstance(n.func, ast.Attribute) and n.func.attr == "emit":
                all_ = True
            elif isinstance(n, (ast.Await, ast.Yield, ast.YieldFrom)):
                all_ = True
        detached = set()
        for n in walk_no_nested(fi.node):
            if isinstance(n, ast.Call):
                fn = unparse(n.func)
                if fn.split(".")[-1] in ("ensure_future", "create_task", "run_coroutine_threadsafe") or \
                        (isinstance(n.func, ast.Attribute) and n.func.attr in DETACH_METHODS):
                    for a in list(n.args) + [k.value for k in n.keywords]:
                        detached.add(id(a))
        for cs in self.cg.sites(fi):
            if id(cs.node) in detached:
                continue  # runs later as its own task / callback, not as part of this call
            for tg in cs.targets:
                if cs.kind == "callback" and not self._immediate_callback(cs, fi):
                    continue
                a, al = self.writes(tg)
                attrs |= a
                all_ = all_ or al
        r = (frozenset(attrs), all_)
        cache[fi.qualname] = r
        return r

    def _immediate_callback(self, cs, fi) -> bool:
        return True

    def mutated_params(self, fi: FuncInfo) -> Set[str]:
        cache = self.__dict__.setdefault("_mutparams_cache", {})
        if fi.qualname not in cache:
            out: Set[str] = set()
            ps = set(fi.params)
            for n in walk_no_nested(fi.node):
                if isinstance(n, ast.Call) and isinstance(n.func, ast.Attribute) and n.func.attr in MUTATORS:
                    b = n.func.value
                    while isinstance(b, (ast.Subscript, ast.Attribute)):
                        b = b.value
                    if isinstance(b, ast.Name) and b.id in ps:
                        out.add(b.id)
                elif isinstance(n, (ast.Subscript, ast.Attribute)) and isinstance(n.ctx, (ast.Store, ast.Del)):
                    b = n.value
                    while isinstance(b, (ast.Subscript, ast.Attribute)):
                        b = b.value
                    if isinstance(b, ast.Name) and b.id in ps:
                        out.add(b.id)
            cache[fi.qualname] = out
        return cache[fi.qualname]

    # ------------------------------------------------------------ raising helpers
    def origin(self, node: ast.AST, kind: str, exc: str, message: str) -> Origin:
        fi = self.fi
        return Origin(fi.qualname, node, kind, exc, message, fi.module.relpath, getattr(node, "lineno", fi.lineno))

    def oblige(self, st: St, node: ast.AST, kind: str, exc: str, ok: bool, message: str, by: str = "", status: str = "") -> None:
        if self.__dict__.get("_quiet", 0):
            return
        alias = self.__dict__.get("_alias_node")
        if alias and node is alias[0]:
            node = alias[1]
        from .absint import Ob
        from .report import norm
        fi = self.fi
        if not ok and self.cfg.exempt_ops:
            from .report import shape
            scope = fi.cls.qualname if fi.cls is not None else fi.module.name
            shapes = getattr(self.cfg, "exempt_op_shapes", ())
            sh = shape(unparse(node))
            if (fi.qualname, kind, norm(unparse(node))) in self.cfg.exempt_ops or (scope, kind, sh) in shapes or (fi.qualname, kind, sh) in shapes:
                ok = True
                by = "exemption table"
        key = (self.ctx, fi.qualname, id(node), kind)
        self.obs[key] = Ob(func=fi.qualname, node=node, kind=kind, exc=exc, ok=ok, message=message, by=by,
                           ctx=self.ctx, chain=tuple(self.chain), status=status)
        if not ok and not status:
            self.interp.raise_exc(exc, st, node, [self.origin(node, kind, exc, message)])

    def skip(self, node: ast.AST, kind: str, why: str) -> None:
        if self.__dict__.get("_quiet", 0):
            return
        from .absint import Ob
        fi = self.fi
        key = (self.ctx, fi.qualname, id(node), kind)
        if key in self.obs and self.obs[key].status != "skipped":
            del self.obs[key]
        self.obs[key] = Ob(func=fi.qualname, node=node, kind=kind, exc="", ok=True, message=why, ctx=self.ctx,
                           chain=tuple(self.chain), status="skipped")

    def may_raise(self, st: St, node: ast.AST, exc: str, kind: str, message: str) -> None:
        """An operation that legitimately may raise (explicit raise, decode, external call)."""
        if self.__dict__.get("_quiet", 0):
            return
        self.interp.raise_exc(exc, st, node, [self.origin(node, kind, exc, message)])

    def raise_names(self, st: St, s: ast.Raise) -> List[str]:
        names: List[str]
        h = self._enclosing_handler(s)
        if s.exc is None or (isinstance(s.exc, ast.Name) and h is not None and h.name == s.exc.id):
            names = self.exc.name_of(h.type, self.fi.module) if h is not None else ["BaseException"]
        else:
            names = self.exc.name_of(s.exc, self.fi.module)
        return names

    def _enclosing_handler(self, node: ast.AST) -> Optional[ast.ExceptHandler]:
        fi = self.fi
        cache = self.__dict__.setdefault("_handler_of", {})
        if fi.qualname not in cache:
            m: Dict[int, ast.ExceptHandler] = {}

            def rec(n: ast.AST, cur: Optional[ast.ExceptHandler]) -> None:
                for c in ast.iter_child_nodes(n):
                    if isinstance(c, (ast.FunctionDef, ast.AsyncFunctionDef, ast.Lambda, ast.ClassDef)) and c is not fi.node:
                        continue
                    nxt = c if isinstance(c, ast.ExceptHandler) else cur
                    if isinstance(c, ast.Raise) and cur is not None:
                        m[id(c)] = cur
                    rec(c, nxt)

            rec(fi.node, None)
            cache[fi.qualname] = m
        return cache[fi.qualname].get(id(node))

    # ------------------------------------------------------------ Call
    def ev_Call(self, st: St, e: ast.Call):
        fi = self.fi
        cs = self._site(e)
        f = e.func
        # ---- detached execution: exceptions do not reach the caller
        ext = cs.ext or ""
        if ext in DETACHERS or (isinstance(f, ast.Attribute) and f.attr in DETACH_METHODS and not cs.targets):
            for a in list(e.args) + [k.value for k in e.keywords]:
                if isinstance(a, ast.Call):
                    st = self._eval_args_only(st, a)
                    for tg in self._site(a).targets:
                        self.spawned.add(tg.qualname)
                else:
                    st, _ = self.ev(st, a)
                    for tg in self.cg._callable_ref(a, fi, self.types.env(fi)):
                        self.spawned.add(tg.qualname)
            return st, AVal(kind="obj")
        # ---- struct
        if ext in STRUCT_FUNCS:
            return self._struct(st, e, STRUCT_FUNCS[ext])
        # ---- methods of a module-level struct.Struct("fmt") object
        if isinstance(f, ast.Attribute) and f.attr in ("pack", "unpack", "unpack_from") and not cs.targets:
            fmt = self._struct_object_fmt(f.value, fi)
            if fmt is not None:
                synth = ast.Call(func=ast.Name(id=f.attr, ctx=ast.Load()), args=[ast.Constant(value=fmt)] + list(e.args), keywords=list(e.keywords))
                ast.copy_location(synth, e)
                ast.fix_missing_locations(synth)
                self.__dict__.setdefault("_synth_struct", {})[id(synth)] = e
                return self._struct(st, synth, f.attr)
        # ---- builtins by name
        if isinstance(f, ast.Name) and not cs.targets and not self.is_local(f.id):
            r = self._builtin(st, e, f.id)
            if r is not None:
                return r
        # ---- methods of builtin values
        if isinstance(f, ast.Attribute) and not cs.targets:
            r = self._builtin_method(st, e, cs)
            if r is not None:
                return r
        # ---- generic: evaluate receiver and arguments
        recv_val: Optional[AVal] = None
        if isinstance(f, ast.Attribute):
            st, recv_val = self.ev(st, f.value)
            self.none_deref_check(st, f)
        elif not isinstance(f, ast.Name):
            st, _ = self.ev(st, f)
        argvals: List[AVal] = []
        for a in e.args:
            st, v = self.ev(st, a)
            argvals.append(v)
        kwvals: Dict[str, AVal] = {}
        for k in e.keywords:
            st, v = self.ev(st, k.value)
            if k.arg is not None:
                kwvals[k.arg] = v
        if cs.targets:
            self_arg = f.value if isinstance(f, ast.Attribute) else None
            return self.call_targets(st, e, cs.targets, argvals, list(e.args), kwvals, self_arg=self_arg,
                                     recv_val=recv_val, kwnodes={k.arg: k.value for k in e.keywords if k.arg})
        dc = self._dataclass_result(e, argvals, kwvals)
        if dc is not None:
            return st, dc
        # external callee
        for exn in self.cfg.ext_raises.get(ext, []):
            self.may_raise(st, e, exn, "ext", f"external call {ext}")
        if isinstance(f, ast.Attribute) and f.attr == "emit":
            st = self.kill_heap(st)
        taint = any(v.taint for v in argvals) or (recv_val is not None and recv_val.taint)
        kind = self.static_kind(e)
        if isinstance(f, ast.Attribute) and f.attr in self.cfg.taint_call_attrs:
            return st, AVal(kind=self.cfg.taint_call_attrs[f.attr], taint=True)
        if ext == "asyncio.wait_for" and argvals:
            return st, argvals[0]
        if ext in ("time.time",):
            return st, AVal(kind="float", lo=0)
        if ext in ("math.ceil", "math.floor") and argvals:
            lo, hi = self.val_bounds(st, argvals[0])
            return st, AVal(kind="int", lo=lo, hi=hi, taint=taint)
        if ext == "math.sqrt" and argvals:
            lo, _ = self.val_bounds(st, argvals[0])
            if fi.module.name in self.cfg.div_all_modules:
                ok = lo is not None and lo >= 0
                self.oblige(st, e, "sqrt", "ValueError", ok, "sqrt argument non-negative" if ok else
                            f"argument `{unparse(e.args[0])}` of math.sqrt is not shown to be non-negative", by=f"arg >= {lo}")
            return st, AVal(kind="float", lo=0, taint=taint)
        return st, AVal(kind=kind, taint=taint)

    def _site(self, e: ast.Call):
        cache = self.__dict__.setdefault("_site_cache", {})
        k = id(e)
        if k not in cache:
            cache[k] = self.cg.resolve_call(e, self.fi)
        return cache[k]

    def _eval_args_only(self, st: St, call: ast.Call) -> St:
        if isinstance(call.func, ast.Attribute):
            st, _ = self.ev(st, call.func.value)
        for a in call.args:
            st, _ = self.ev(st, a)
        for k in call.keywords:
            st, _ = self.ev(st, k.value)
        return st

    # ------------------------------------------------------------ builtins
    def _builtin(self, st: St, e: ast.Call, name: str):
        args = e.args
        if name == "len" and len(args) == 1:
            st, v = self.ev(st, args[0])
            L = v.length
            if L is None:
                la = self.len_atom(args[0])
                L = Lin.atom(la) if la else None
            out = AVal(kind="int", lin=L, lo=0, taint=v.taint)
            if L is not None:
                lo, hi = self.lin_bounds(st, L)
                out.lo = max(0, lo) if lo is not None else 0
                out.hi = hi
            return st, out
        if name in ("min", "max") and len(args) >= 2 and not e.keywords:
            vals = []
            for a in args:
                st, v = self.ev(st, a)
                vals.append(v)
            bs = [self.val_bounds(st, v) for v in vals]
            taint = any(v.taint for v in vals)
            fl = any(v.kind == "float" for v in vals)
            if name == "min":
                his = [b[1] for b in bs if b[1] is not None]
                hi = min(his) if his else None
                lo = None if any(b[0] is None for b in bs) else min(b[0] for b in bs)
            else:
                los = [b[0] for b in bs if b[0] is not None]
                lo = max(los) if los else None
                hi = None if any(b[1] is None for b in bs) else max(b[1] for b in bs)
            return st, AVal(kind="float" if fl else "int", lo=lo, hi=hi, taint=taint)
        if name == "pow" and len(args) == 2 and not e.keywords:
            st, a = self.ev(st, args[0])
            st, b = self.ev(st, args[1])
            self.pow_ob(st, e, a, b)
            fl = a.kind == "float" or b.kind == "float"
            return st, AVal(kind="float" if fl else "int", taint=a.taint or b.taint)
        if name == "abs" and len(args) == 1:
            st, v = self.ev(st, args[0])
            if v.maybe_none:
                self.none_ob(st, e, v)
            lo, hi = self.val_bounds(st, v)
            h = None if lo is None or hi is None else max(abs(lo), abs(hi))
            l = 0
            if lo is not None and lo >= 0:
                l = lo
            return st, AVal(kind=v.kind if v.kind in ("int", "float") else None, lo=l, hi=h, taint=v.taint)
        if name in ("int", "round") and len(args) >= 1:
            st, v = self.ev(st, args[0])
            for a in args[1:]:
                st, _ = self.ev(st, a)
            if v.kind == "str" or (v.kind is None and self.static_kind(args[0]) == "str"):
                self.may_raise(st, e, "ValueError", "int", "int() of a string")
                return st, AVal(kind="int", taint=v.taint)
            lo, hi = self.val_bounds(st, v)
            out = AVal(kind="int", lo=lo, hi=hi, taint=v.taint)
            if v.kind in ("int", "bool") and v.lin is not None:
                out.lin = v.lin
            return st, out
        if name == "bool" and len(args) == 1:
            st, v = self.ev(st, args[0])
            return st, AVal(kind="bool", lo=0, hi=1, taint=v.taint)
        if name in ("bytes", "bytearray") and len(args) == 1:
            cs = self._site(e)
            st, v = self.ev(st, args[0])
            if cs.targets:
                return self.call_targets(st, e, cs.targets, [v], [args[0]], {}, self_arg=args[0], recv_val=v, bind_self_only=True)
            if v.kind in ("list", "tuple") and v.length is not None:
                return st, AVal(kind="bytes", length=v.length, taint=v.taint)
            if v.kind == "int" and v.lin is not None:
                return st, AVal(kind="bytes", length=v.lin, taint=v.taint)
            if v.kind in ("bytes",):
                return st, AVal(kind="bytes", length=v.length, taint=v.taint)
            return st, AVal(kind="bytes", taint=v.taint)
        if name in ("str", "repr") and len(args) == 1:
            cs = self._site(e)
            st, v = self.ev(st, args[0])
            if cs.targets:
                st, _ = self.call_targets(st, e, cs.targets, [v], [args[0]], {}, self_arg=args[0], recv_val=v, bind_self_only=True)
            return st, AVal(kind="str", taint=v.taint)
        if name in ("list", "tuple", "sorted", "reversed", "set", "frozenset") and len(args) >= 1:
            st, v = self.ev(st, args[0])
            for k in e.keywords:
                st, _ = self.ev(st, k.value)
            keep_len = name in ("list", "tuple", "sorted", "reversed")
            return st, AVal(kind="list" if name != "tuple" else "tuple", length=v.length if keep_len and v.kind != "dict" else None,
                            taint=v.taint, elem=v.elem, elems=v.elems if name in ("list", "tuple") else None)
        if name in ("filter", "map") and len(args) == 2:
            st, v = self.ev(st, args[1])
            tgs = self.cg._callable_ref(args[0], self.fi, self.types.env(self.fi))
            if tgs:
                el = v.elem.with_taint(v.taint) if v.elem is not None else AVal(taint=v.taint)
                st, _ = self.call_targets(st, e, tgs, [el], [None], {})
            return st, AVal(kind="list", taint=v.taint, elem=v.elem if name == "filter" else None)
        if name == "isinstance":
            for a in args:
                st, _ = self.ev(st, a)
            return st, AVal(kind="bool", lo=0, hi=1)
        if name == "range":
            for a in args:
                st, _ = self.ev(st, a)
            return st, AVal(kind="list")
        if name == "enumerate" and args:
            st, v = self.ev(st, args[0])
            return st, AVal(kind="list", length=v.length, taint=v.taint)
        if name == "cast" and len(args) == 2:
            return self.ev(st, args[1])
        if name == "next" and args:
            st, v = self.ev(st, args[0])
            for a in args[1:]:
                st, _ = self.ev(st, a)
            if len(args) == 1:
                nonempty = False
                a0 = args[0]
                if isinstance(a0, ast.Call) and isinstance(a0.func, ast.Name) and a0.func.id == "iter" and len(a0.args) == 1:
                    la = self.len_atom(a0.args[0])
                    if la is not None and st.f.entails_ge(Lin.atom(la).shift(-1)):
                        nonempty = True
                if nonempty:
                    self.oblige(st, e, "next", "StopIteration", True, "iterator over a non-empty container", by=f"{la} >= 1")
                else:
                    self.may_raise(st, e, "StopIteration", "next", "next() on an exhausted iterator")
            return st, AVal(taint=v.taint)
        return None

    def _builtin_method(self, st: St, e: ast.Call, cs):
        f: ast.Attribute = e.func  # type: ignore
        attr = f.attr
        ext = cs.ext or ""
        if not ext.startswith("builtins."):
            return None
        bkind = ext.split(".")[1]
        st, recv = self.ev(st, f.value)
        argvals: List[AVal] = []
        for a in e.args:
            st, v = self.ev(st, a)
            argvals.append(v)
        for k in e.keywords:
            st, _ = self.ev(st, k.value)
        taint = recv.taint or any(v.taint for v in argvals)
        if attr in MUTATORS and bkind in ("list", "deque", "set", "dict"):
            la = self.len_atom(f.value)
            # pop/popleft on possibly-empty containers
            if attr in ("pop", "popleft") and bkind in ("list", "deque") and not e.args:
                n = recv.length
                if n is not None and st.f.entails_ge(n.shift(-1)):
                    self.oblige(st, e, "index", "IndexError", True, "container non-empty", by=f"{n} >= 1")
                elif recv.taint:
                    self.oblige(st, e, "index", "IndexError", False, f"`{unparse(f.value)}` may be empty")
                else:
                    self.skip(e, "index", "container not derived from received data")
            if attr == "pop" and bkind == "dict" and len(e.args) == 1:
                d = self.atom_of(f.value)
                k = self.atom_of(e.args[0])
                own_key = unparse(e.args[0]) == f"next(iter({unparse(f.value)}))"
                if own_key:
                    self.oblige(st, e, "key", "KeyError", True, "key taken from the dict itself", by="next(iter(d)) is a key of d")
                elif d is not None and k is not None and st.f.has_pred(("in", k, d)):
                    self.oblige(st, e, "key", "KeyError", True, "key present", by=f"{k} in {d}")
                elif argvals[0].taint:
                    self.oblige(st, e, "key", "KeyError", False,
                                f"key `{unparse(e.args[0])}` (from received data) is not shown to be in `{unparse(f.value)}`")
                else:
                    self.skip(e, "key", "key not derived from received data")
            if attr == "remove" and bkind in ("list", "set", "deque"):
                if argvals and argvals[0].taint:
                    self.oblige(st, e, "key", "KeyError" if bkind == "set" else "ValueError", False,
                                f"`{unparse(e)}` raises if the element is absent")
            # length effect
            delta = {"append": 1, "appendleft": 1, "add": None, "insert": 1}.get(attr, None)
            if attr in ("append", "appendleft", "add") and argvals and not self.__dict__.get("_quiet", 0):
                av = argvals[-1]
                if isinstance(f.value, ast.Name):
                    nv = self.name_val(f.value.id)
                    vals = self.__dict__.setdefault("_name_vals", {})
                    base = nv.copy() if nv is not None else AVal(kind=bkind)
                    base.elem = av if base.elem is None else (self.join_vals(base.elem, av) or av)
                    base.elems = None
                    base.length = None
                    base.const = NOCONST
                    vals[(self.ctx, self.fi.qualname, f.value.id)] = base
                elif isinstance(f.value, ast.Attribute):
                    self.note_attr_val(f.value.attr, AVal(kind=bkind, elem=av, taint=av.taint))
                    if av.taint and f.value.attr not in self.tainted_attrs:
                        self.tainted_attrs.add(f.value.attr)
            if la is not None and attr in ("append", "appendleft", "insert") and bkind in ("list", "deque"):
                a = self.atom_of(f.value)
                fct = st.f.subst_atom(la, Lin.atom(la) - Lin.const(1))
                st = st.with_f(fct) or st
                if argvals and argvals[-1].taint and isinstance(f.value, ast.Name):
                    st = St(st.f, st.defd, st.taint | {f.value.id})
            else:
                st = self.mutated(st, f.value)
                if attr == "add" and bkind == "set" and isinstance(f.value, ast.Name) and argvals and argvals[0].taint:
                    st = St(st.f, st.defd, st.taint | {f.value.id})
            return st, AVal(taint=taint, kind=self.static_kind(e))
        if bkind == "bytes" and attr == "decode":
            if self.cfg.decode_obligation:
                self.may_raise(st, e, "UnicodeDecodeError", "decode", "bytes.decode() of received data")
            return st, AVal(kind="str", taint=taint)
        if bkind == "str" and attr == "encode":
            return st, AVal(kind="bytes", taint=taint)
        if bkind == "bytes" and attr == "join" and argvals:
            return st, AVal(kind="bytes", taint=taint or argvals[0].taint)
        if bkind == "dict" and attr == "get":
            return st, AVal(taint=taint, kind=self.static_kind(e), maybe_none=len(e.args) < 2)
        if bkind == "dict" and attr in ("items", "keys", "values"):
            return st, AVal(kind="list", length=recv.length, taint=taint)
        if bkind in ("list", "deque") and attr == "index":
            if argvals and argvals[0].taint and recv.taint:
                self.may_raise(st, e, "ValueError", "index", "list.index of an absent element")
            return st, AVal(kind="int", lo=0, taint=recv.taint)
        if bkind in ("list", "set", "dict", "deque") and attr == "copy":
            return st, AVal(kind=bkind, length=recv.length, taint=taint, elem=recv.elem)
        if bkind == "bytes" and attr in ("find", "index", "count"):
            return st, AVal(kind="int", lo=-1, taint=taint)
        if bkind == "bytes" and attr == "hex":
            return st, AVal(kind="str", taint=taint)
        return st, AVal(taint=taint, kind=self.static_kind(e))

    # ------------------------------------------------------------ struct
    def _fmt(self, st: St, node: ast.expr):
        """-> (size Lin, StructFmt|None, per-item (char,width,signed) or None, count Lin|None)"""
        fi = self.fi
        try:
            c = self.prog.const_eval(node, fi.module, fi.cls)
            if isinstance(c, str):
                sf = parse_struct_fmt(c)
                return Lin.const(sf.size), sf
        except Unknown:
            pass
        # "!" + ("L" * count)
        if isinstance(node, ast.BinOp) and isinstance(node.op, ast.Add):
            try:
                prefix = self.prog.const_eval(node.left, fi.module, fi.cls)
            except Unknown:
                prefix = None
            r = node.right
            if isinstance(prefix, str) and isinstance(r, ast.BinOp) and isinstance(r.op, ast.Mult):
                s_node, n_node = (r.left, r.right)
                try:
                    ch = self.prog.const_eval(s_node, fi.module, fi.cls)
                except Unknown:
                    ch, n_node, s_node = None, r.left, r.right
                    try:
                        ch = self.prog.const_eval(s_node, fi.module, fi.cls)
                    except Unknown:
                        ch = None
                if isinstance(ch, str):
                    one = parse_struct_fmt(prefix + ch)
                    base = parse_struct_fmt(prefix)
                    n = self._lin_of(st, n_node)
                    if n is not None:
                        return Lin.const(base.size) + n.scale(one.size - base.size), None
        return None, None

    def _struct_object_fmt(self, node: ast.AST, fi) -> Optional[str]:
        """Format string of `NAME` / `mod.NAME` when it is bound at module level to Struct("...")."""
        m = fi.module
        name = None
        if isinstance(node, ast.Name) and not self.is_local(node.id):
            r = self.prog.resolve_name(m, node.id)
            if r and r[0] == "const":
                m, name = r[1]
        elif isinstance(node, ast.Attribute) and isinstance(node.value, ast.Name):
            r = self.prog.resolve_name(m, node.value.id)
            if r and r[0] == "module" and node.attr in r[1].assigns:
                m, name = r[1], node.attr
        if name is None:
            return None
        v = m.assigns.get(name)
        if isinstance(v, ast.Call) and unparse(v.func) in ("Struct", "struct.Struct") and v.args:
            try:
                fmt = self.prog.const_eval(v.args[0], m, None)
            except Unknown:
                return None
            return fmt if isinstance(fmt, str) else None
        return None

    def _struct(self, st: St, e: ast.Call, which: str):
        if not e.args:
            return st, AVal()
        size, sf = self._fmt(st, e.args[0])
        st, _ = self.ev(st, e.args[0])
        if which == "calcsize":
            return st, AVal(kind="int", lin=size, lo=0)
        if which == "pack":
            vals: List[AVal] = []
            nodes: List[ast.expr] = []
            for a in e.args[1:]:
                st, v = self.ev(st, a)
                if isinstance(a, ast.Starred):
                    if v.elems is not None:
                        vals.extend(v.elems)
                        nodes.extend([a] * len(v.elems))
                    elif v.elem is not None and v.elem.elems is not None:
                        vals.extend(v.elem.elems)
                        nodes.extend([a] * len(v.elem.elems))
                    else:
                        vals.append(None)  # unknown arity
                        nodes.append(a)
                else:
                    vals.append(v)
                    nodes.append(a)
            if sf is not None and None not in vals and len(vals) == len(sf.fields):
                for (ch, w, signed), (flo, fhi), v, n in zip(sf.fields, sf.ranges(), vals, nodes):
                    if flo is None:
                        continue
                    self._pack_ob(st, e, n, v, ch, flo, fhi)
            taint = any(v is not None and v.taint for v in vals)
            return st, AVal(kind="bytes", length=size, taint=taint)
        if which == "unpack":
            if len(e.args) < 2:
                return st, AVal()
            st, buf = self.ev(st, e.args[1])
            n = buf.length
            if size is not None and n is not None and st.f.entails_eq(n - size):
                self.oblige(st, e, "unpack", "struct.error", True, f"buffer length == {size}", by=f"len == {st.f.reduce(n)}")
            else:
                self.oblige(st, e, "unpack", "struct.error", False,
                            f"buffer `{unparse(e.args[1])}` is not shown to be exactly {size if size is not None else 'calcsize(fmt)'} bytes")
                if size is not None and n is not None:
                    f2 = st.f.add_eq(n - size)
                    st = st.with_f(f2) or st
            return st, self._unpacked(sf, buf.taint)
        if which == "unpack_from":
            if len(e.args) < 2:
                return st, AVal()
            st, buf = self.ev(st, e.args[1])
            off = AVal.of_const(0)
            off_node = None
            if len(e.args) >= 3:
                off_node = e.args[2]
            for k in e.keywords:
                if k.arg == "offset":
                    off_node = k.value
            if off_node is not None:
                st, off = self.ev(st, off_node)
            n = buf.length
            ok = False
            by = ""
            if size is not None and n is not None and off.lin is not None:
                need = n - off.lin - size
                lo, _ = self.val_bounds(st, off)
                if ((lo is not None and lo >= 0) or st.f.entails_ge(off.lin)) and st.f.entails_ge(need):
                    ok = True
                    by = f"len({unparse(e.args[1])}) - ({off.lin}) >= {size}"
            if ok:
                self.oblige(st, e, "unpack", "struct.error", True, f"{size} bytes available at offset", by=by)
            else:
                self.oblige(st, e, "unpack", "struct.error", False,
                            f"no dominating fact shows {size if size is not None else 'calcsize(fmt)'} bytes are available in "
                            f"`{unparse(e.args[1])}` at offset `{unparse(off_node) if off_node is not None else 0}`")
                if size is not None and n is not None and off.lin is not None:
                    f2 = st.f.add_ge(n - off.lin - size)
                    st = st.with_f(f2) or st
            return st, self._unpacked(sf, buf.taint)
        return st, AVal()

    def _unpacked(self, sf, taint: bool) -> AVal:
        if sf is None:
            return AVal(kind="tuple", taint=taint, elem=AVal(kind="int", taint=taint))
        elems = []
        for (ch, w, signed), (lo, hi) in zip(sf.fields, sf.ranges()):
            if ch == "s":
                elems.append(AVal(kind="bytes", length=Lin.const(w), taint=taint))
            else:
                elems.append(AVal(kind="int" if signed is not None else "float", lo=lo, hi=hi, taint=taint, src=f"struct '{ch}'"))
        return AVal(kind="tuple", elems=elems, length=Lin.const(len(elems)), taint=taint)

    def _pack_ob(self, st: St, call: ast.Call, node: ast.expr, v: AVal, ch: str, flo: int, fhi: int) -> None:
        lo, hi = self.val_bounds(st, v)
        key_node = node
        if v.const is not NOCONST and isinstance(v.const, int):
            if flo <= v.const <= fhi:
                return
        if lo is not None and hi is not None and lo >= flo and hi <= fhi:
            if v.src == "heap":
                self.skip(key_node, "pack", "range known only through name-based heap flow; not used to discharge")
                return
            self.oblige(st, key_node, "pack", "struct.error", True, f"value fits '{ch}'", by=f"[{lo},{hi}] within [{flo},{fhi}]")
            return
        if v.maybe_none:
            self.oblige(st, key_node, "pack", "struct.error", False, f"value `{unparse(node)}` may be None when packed as '{ch}'")
            return
        definite = (lo is not None and lo < flo) or (hi is not None and hi > fhi)
        if definite and (lo is not None and hi is not None) and v.taint:
            self.oblige(st, key_node, "pack", "struct.error", False,
                        f"value `{unparse(node)}` ranges over [{lo},{hi}] but format '{ch}' holds [{flo},{fhi}]")
            return
        self.skip(key_node, "pack", f"range of `{unparse(node)}` unknown ([{lo},{hi}]); width not decided")

    # ------------------------------------------------------------ in-repo calls
    def call_targets(self, st: St, node: ast.AST, targets: List[FuncInfo], argvals: List[AVal], argnodes: List[Optional[ast.expr]],
                     kwvals: Dict[str, AVal], self_arg: Optional[ast.expr] = None, recv_val: Optional[AVal] = None,
                     kwnodes: Dict[str, ast.expr] = None, bind_self_only: bool = False):
        fi = self.fi
        quiet = self.__dict__.get("_quiet", 0)
        ret: Optional[AVal] = None
        first = True
        all_writes: Set[str] = set()
        writes_all = False
        seen: Set[str] = set()
        depth_ok = len(self.chain) < 40
        last_summ = None
        for tg in targets:
            if tg.qualname in seen:
                continue
            seen.add(tg.qualname)
            w, wa = self.writes(tg)
            all_writes |= w
            writes_all = writes_all or wa
            if not depth_ok:
                continue
            pvals, facts, tainted, sig = self._bind(st, tg, argvals, argnodes, kwvals, kwnodes or {}, self_arg, recv_val, bind_self_only)
            # a call on the same object from inside one of its methods: the object may be mid-update, so the
            # callee is analysed with the caller's facts only, not with the class invariant assumed
            assume_inv = not (isinstance(self_arg, ast.Name) and self_arg.id == "self")
            if quiet and not self.__dict__.get("_inv_mode", 0):
                summ = self.memo.get((tg.qualname, sig, assume_inv))
                if summ is None:
                    first = False
                    ret = None
                    continue
            else:
                summ = self.analyze(tg, sig, facts, tainted, pvals, assume_inv=assume_inv)
            last_summ = summ
            for exc_name, wits in ({} if quiet else summ.raises).items():
                for wit in wits:
                    site = f"{fi.module.relpath}:{getattr(node, 'lineno', 0)} {fi.qualname}: `{unparse(node)[:80]}`"
                    self.interp.raise_exc(exc_name, st, node, [wit[0]] + [site] + list(wit[1:]))
            r = summ.ret
            if tg.name == "__init__" or tg.name == "__post_init__":
                continue
            ret = r if first else (self.join_vals(ret, r) if r is not None and ret is not None else None)
            first = False
        # effects on the caller's facts
        held = self.held_invariants(st) if (writes_all or all_writes) else []
        if writes_all or any(t.is_async for t in targets):
            st = self.kill_heap(st)
        elif all_writes:
            st = self.kill_heap(st, all_writes)
        if held:
            st = self.restore(st, held)
        # a method called on the same object: what holds about self.* at its exits holds here afterwards
        if len(seen) == 1 and isinstance(self_arg, ast.Name) and self_arg.id == "self" and last_summ is not None \
                and last_summ.exit is not None and not any(t.is_async for t in targets):
            f = st.f
            for G in last_summ.exit.ge:
                if _self_rooted(G.atoms()):
                    f2 = f.add_ge(G); f = f2 if f2 is not None else f
            for E in last_summ.exit.eq:
                if _self_rooted(E.atoms()):
                    f2 = f.add_eq(E); f = f2 if f2 is not None else f
            for p in last_summ.exit.preds:
                if p[0] in ("flo", "fhi", "notnone", "none") and isinstance(p[1], str) and _self_rooted([p[1]]):
                    f = f.add_pred(p)
            st = st.with_f(f) or st
        for tg in targets:
            mp = self.mutated_params(tg)
            if not mp:
                continue
            params = [p.arg for p in tg.pos_params]
            off = 1 if (tg.cls is not None and tg.kind in ("method", "classmethod", "property") and self_arg is not None) or tg.name in ("__init__", "__post_init__") else 0
            for i, an in enumerate(argnodes):
                if an is not None and i + off < len(params) and params[i + off] in mp:
                    st = self.mutated(st, an)
            for k, an in (kwnodes or {}).items():
                if k in mp:
                    st = self.mutated(st, an)
        if ret is not None:
            same_self = isinstance(self_arg, ast.Name) and self_arg.id == "self"

            def clean(L):
                if L is None or L.is_const():
                    return L
                if same_self and all(a.startswith("self.") or a.startswith("len(self.") for a in L.atoms()):
                    return L
                return None
            ret = ret.copy()
            ret.lin = clean(ret.lin)
            ret.length = clean(ret.length)
        if ret is None:
            kinds = {self.static_kind(node)} if isinstance(node, ast.expr) else set()
            ret = AVal(kind=kinds.pop() if kinds else None, taint=any(v.taint for v in argvals))
        else:
            ret = ret.copy()
            if ret.kind is None and isinstance(node, ast.expr):
                ret.kind = self.static_kind(node)
        if any(t.qualname in self.cfg.taint_returns for t in targets):
            ret = ret.copy()
            ret.taint = True
            if ret.kind is None:
                ret.kind = self.cfg.taint_returns.get(targets[0].qualname)
        # constructors return instances
        if targets and all(t.name in ("__init__", "__post_init__") for t in targets):
            ret = AVal(kind="obj", taint=any(v.taint for v in argvals) or any(v.taint for v in kwvals.values()))
        if isinstance(node, ast.Call):
            dc = self._dataclass_result(node, argvals, kwvals)
            if dc is not None:
                ret = dc
        return st, ret

    def _dataclass_result(self, node: ast.Call, argvals: List[AVal], kwvals: Dict[str, AVal]) -> Optional[AVal]:
        ci = self._dataclass_of(node)
        if ci is None:
            return None
        ret = AVal(kind="obj", taint=any(v.taint for v in argvals) or any(v.taint for v in kwvals.values()))
        fields: Dict[str, AVal] = {}
        names: List[str] = []
        for c in reversed(self.prog.mro(ci)):
            for n in c.ann:
                if n not in names:
                    names.append(n)
        for c in self.prog.mro(ci):
            for n, dflt in c.attrs.items():
                if n in names and n not in fields:
                    cv = self.prog.try_const(dflt, c.module, c, default=NOCONST)
                    if cv is not NOCONST:
                        fields[n] = AVal.of_const(cv)
        for i, v in enumerate(argvals):
            if i < len(names):
                fields[names[i]] = v
        for k, v in kwvals.items():
            fields[k] = v
        if not self.__dict__.get("_quiet", 0):
            for k, v in fields.items():
                if v.taint and k not in self.tainted_attrs:
                    self.tainted_attrs.add(k)
                if v.elem is not None or v.elems is not None:
                    self.note_attr_val(k, v)
        ret.fields = fields
        if not self.__dict__.get("_quiet", 0):
            for ob in self.__dict__.get("ctor_observers", ()):
                ob(node, ci, fields, self)
        return ret

    def _dataclass_of(self, call: ast.Call):
        t = self.types.type_of(call.func, self.fi)
        from .types import members
        ms = members(t)
        if len(ms) == 1 and ms[0][0] == "cls" and ms[0][1].is_dataclass and "__init__" not in ms[0][1].methods:
            return ms[0][1]
        return None

    def _bind(self, st: St, tg: FuncInfo, argvals, argnodes, kwvals, kwnodes, self_arg, recv_val, bind_self_only):
        params = [p.arg for p in tg.pos_params]
        kwonly = [p.arg for p in tg.node.args.kwonlyargs] if not isinstance(tg.node, ast.Lambda) else []
        binding: Dict[str, Tuple[Optional[AVal], Optional[ast.expr]]] = {}
        off = 0
        if tg.cls is not None and tg.parent is None and tg.kind in ("method", "property", "setter") and params:
            if tg.name in ("__init__", "__post_init__"):
                off = 1
            elif self_arg is not None:
                binding[params[0]] = (recv_val, self_arg)
                off = 1
            else:
                off = 1
        elif tg.kind == "classmethod" and params:
            off = 1
        if not bind_self_only:
            star = None
            for i, v in enumerate(argvals):
                an = argnodes[i] if i < len(argnodes) else None
                if isinstance(an, ast.Starred):
                    star = (i, v)
                    break
                if i + off < len(params):
                    binding[params[i + off]] = (v, an)
            if star is not None:
                i0, sv = star
                elems = sv.elems if sv.elems is not None else (sv.elem.elems if sv.elem is not None and sv.elem.elems is not None else None)
                for j, pn in enumerate(params[i0 + off:]):
                    if elems is not None and j < len(elems):
                        ev_ = elems[j].copy()
                        ev_.lin = None
                        ev_.taint = ev_.taint or sv.taint
                        binding[pn] = (ev_, None)
                    else:
                        binding[pn] = (AVal(taint=sv.taint), None)
            for k, v in kwvals.items():
                if k in params or k in kwonly:
                    binding[k] = (v, kwnodes.get(k))
        # defaults for unbound parameters with constant defaults
        if not isinstance(tg.node, ast.Lambda) or True:
            a = tg.node.args
            defaults = list(a.defaults)
            pos = a.posonlyargs + a.args
            for p, d in zip(pos[len(pos) - len(defaults):], defaults):
                if p.arg not in binding:
                    c = self.prog.try_const(d, tg.module, tg.cls, default=NOCONST)
                    if c is not NOCONST:
                        binding[p.arg] = (AVal.of_const(c), None)
            for p, d in zip(a.kwonlyargs, a.kw_defaults):
                if d is not None and p.arg not in binding:
                    c = self.prog.try_const(d, tg.module, tg.cls, default=NOCONST)
                    if c is not NOCONST:
                        binding[p.arg] = (AVal.of_const(c), None)
        pvals: Dict[str, AVal] = {}
        tainted: Set[str] = set()
        facts = Facts()
        renames: List[Tuple[str, str]] = []
        sig_items = []
        for p, (v, an) in sorted(binding.items()):
            if v is None:
                v = AVal()
            if v.maybe_none and an is not None:
                ann = tg.param_annotation(p)
                if ann is not None and unparse(ann) in ("int", "float"):
                    self.none_ob(st, an, v)
                    v = v.copy()
                    v.maybe_none = False
            pv = AVal(kind=v.kind, taint=v.taint, maybe_none=v.maybe_none, src=v.src)
            desc: List[Any] = [p, v.taint, v.maybe_none, v.kind]
            if v.const is not NOCONST and isinstance(v.const, (int, str, bytes, bool, type(None), float)):
                pv = AVal.of_const(v.const)
                pv.taint = v.taint
                desc.append(("c", repr(v.const)))
            else:
                lo, hi = self.val_bounds(st, v)
                if v.kind in (None, "int", "bool", "float"):
                    pv.lo, pv.hi = lo, hi
                    desc.append(("iv", lo, hi))
                    if lo is not None:
                        f2 = facts.add_ge(Lin.atom(p).shift(-lo)); facts = f2 if f2 is not None else facts
                    if hi is not None:
                        f2 = facts.add_ge((-Lin.atom(p)).shift(hi)); facts = f2 if f2 is not None else facts
                if v.length is not None:
                    llo, lhi = self.lin_bounds(st, v.length)
                    if v.length.is_const():
                        pv.length = v.length
                        f2 = facts.add_eq(Lin.atom(f"len({p})") - v.length); facts = f2 if f2 is not None else facts
                        desc.append(("len", v.length.c))
                    else:
                        if llo is not None and llo > 0:
                            f2 = facts.add_ge(Lin.atom(f"len({p})").shift(-llo)); facts = f2 if f2 is not None else facts
                        if lhi is not None:
                            f2 = facts.add_ge((-Lin.atom(f"len({p})")).shift(lhi)); facts = f2 if f2 is not None else facts
                        desc.append(("lenb", llo if llo else 0, lhi))
                if v.elems is not None:
                    pv.elems = v.elems
                    pv.length = Lin.const(len(v.elems))
                    desc.append(("elems", tuple((x.lo, x.hi, x.kind, x.taint) for x in v.elems)))
                if v.elem is not None:
                    pv.elem = v.elem
                    desc.append(("elem", v.elem.lo, v.elem.hi, v.elem.kind, v.elem.taint,
                                 tuple((x.lo, x.hi) for x in v.elem.elems) if v.elem.elems else None))
            if v.lin is not None and not v.lin.is_const() and isinstance(self_arg, ast.Name) and self_arg.id == "self" \
                    and _self_rooted(v.lin.atoms()):
                f2 = facts.add_eq(Lin.atom(p) - v.lin)
                facts = f2 if f2 is not None else facts
                desc.append(("lin", repr(v.lin)))
            if v.taint:
                tainted.add(p)
            pvals[p] = pv
            if an is not None:
                a = self.atom_of(an)
                if a is not None:
                    renames.append((a, p))
            sig_items.append(tuple(desc))
        if tg.parent is not None and ("self", "self") not in renames:
            renames.append(("self", "self"))  # closures see the enclosing method's self
        # facts about attribute paths rooted at renamed arguments (and at self for same-object calls)
        same_self = False
        if renames:
            transferred = self._transfer(st.f, renames)
            for kind, x in transferred:
                if kind == "ge":
                    f2 = facts.add_ge(x)
                elif kind == "eq":
                    f2 = facts.add_eq(x)
                else:
                    f2 = facts.add_pred(x)
                facts = f2 if f2 is not None else facts
            sig_items.append(("facts", tuple(sorted(repr(x) for x in transferred))))
        return pvals, facts, tainted, tuple(sig_items)

    def _transfer(self, f: Facts, renames: List[Tuple[str, str]]):
        def map_atom(a: str) -> Optional[str]:
            inner = a
            wrap = False
            if a.startswith("len(") and a.endswith(")"):
                inner = a[4:-1]
                wrap = True
            for src, dst in renames:
                if inner == src:
                    out = dst
                elif inner.startswith(src + ".") or inner.startswith(src + "["):
                    out = dst + inner[len(src):]
                else:
                    continue
                # remaining free names inside subscripts are not translatable
                rest = inner[len(src):]
                dn, _ = atom_deps(rest.lstrip(".")) if rest.startswith(".") else (frozenset(), None)
                return f"len({out})" if wrap else out
            return None

        out = []
        for G in f.ge:
            r = G.rename(map_atom)
            if r is not None and not r.is_const():
                out.append(("ge", r))
        for E in f.eq:
            r = E.rename(map_atom)
            if r is not None and not r.is_const():
                out.append(("eq", r))
        for p in f.preds:
            if p[0] in ("notnone", "none", "truthy") and isinstance(p[1], str):
                m = map_atom(p[1])
                if m is not None:
                    out.append(("pred", (p[0], m)))
            elif p[0] == "in" and isinstance(p[1], str) and isinstance(p[2], str):
                m1, m2 = map_atom(p[1]), map_atom(p[2])
                if m2 is not None and (m1 is not None or not any(c.isalpha() or c == "_" for c in p[1])):
                    out.append(("pred", ("in", m1 if m1 is not None else p[1], m2)))
        return out
