"""Facts domain: forward abstract interpretation with linear length/cursor facts,
intervals, taint (wire-derived data), definite assignment, and *obligations*:
raise-capable operations that must be discharged by a dominating fact or an enclosing
handler.  Interprocedural by context inlining (callee re-analysed with the caller's
constant facts about the arguments, memoised by argument signature).

The expression/statement/call parts live in mix-ins (absint_expr, absint_stmt,
absint_call) to keep files readable.
"""
from __future__ import annotations

import ast
from dataclasses import dataclass, field
from typing import Any, Dict, FrozenSet, List, Optional, Set, Tuple

from .aval import AVal, NOCONST, St, st_equal, st_join, st_widen
from .callgraph import CallGraph
from .flow import ExcTable, Interp
from .index import AnalysisError, FuncInfo, Program, unparse
from .lin import Facts, Lin
from .types import Types


@dataclass
class Ob:
    """One obligation (latest visit in one analysis context)."""
    func: str
    node: ast.AST
    kind: str  # unpack | index | key | assert | div | shift | none | unbound | decode | pack | progress | cost | raise
    exc: str
    ok: bool
    message: str
    by: str = ""  # what discharged it
    ctx: str = ""
    chain: Tuple[str, ...] = ()
    status: str = ""  # "skipped" for untainted/undecided operations (not findings)


@dataclass
class Summary:
    raises: Dict[str, List[List[Any]]] = field(default_factory=dict)  # exc -> witnesses [Origin, call sites...]
    ret: Optional[AVal] = None
    writes_all: bool = False
    exit: Optional[Facts] = None  # join of the facts at the normal exits


class Config:
    """What the domain checks and where."""

    def __init__(self) -> None:
        self.taint_params: Dict[str, Set[str]] = {}  # func qualname -> tainted parameter names
        self.wire_classes: Set[str] = set()  # class qualnames whose attributes are wire data
        self.none_fields: Set[Tuple[str, str]] = set()  # (class qualname, field) subject to the None rule
        self.div_all_modules: Set[str] = set()  # modules where every non-constant divisor is an obligation
        self.inline_depth = 4
        self.assert_scope: Optional[Set[str]] = None  # function qualnames whose asserts are obligations (None = all analysed)
        self.assert_untainted = False  # True: asserts over local state are obligations too (control-dependent on the datagram)
        self.detached_calls = True  # ensure_future(f()) does not propagate exceptions to the caller
        self.ext_raises: Dict[str, List[str]] = {}  # dotted external callable -> exception names
        self.exempt_asserts: Set[Tuple[str, str]] = set()  # (func qualname, normalised construct)
        self.exempt_unbound: Set[Tuple[str, str]] = set()  # (func qualname, variable)
        self.exempt_ops: Set[Tuple[str, str, str]] = set()  # (func qualname, kind, normalised construct)
        self.decode_obligation = True
        self.none_deref_fields: Set[Tuple[str, str]] = set()  # (class, field): None until set up; any attribute access needs a not-None fact
        self.guard_implies: List[Tuple[str, str, str]] = []  # (class, guard attr, attr that is not None whenever the guard is truthy)
        self.taint_call_attrs: Dict[str, Optional[str]] = {}  # external attribute calls returning received data -> kind
        self.taint_returns: Dict[str, Optional[str]] = {}  # in-repo functions whose result is received data -> kind
        self.tainted_self_fields: Dict[str, Set[str]] = {}  # class qualname -> fields holding wire-derived ints


from .absint_expr import ExprMixin  # noqa: E402
from .absint_stmt import StmtMixin  # noqa: E402
from .absint_call import CallMixin  # noqa: E402


class Absint(ExprMixin, StmtMixin, CallMixin):
    def __init__(self, prog: Program, cfg: Config, types: Types = None, cg: CallGraph = None) -> None:
        self.prog = prog
        self.cfg = cfg
        self.types = types or Types(prog)
        self.cg = cg or CallGraph(prog, self.types)
        self.exc = ExcTable(prog)
        self.interp = Interp(self, self.exc)
        self.obs: Dict[Tuple[str, str, int, str], Ob] = {}
        self.memo: Dict[Tuple[str, Any], Summary] = {}
        self.in_progress: List[Tuple[str, Any]] = []
        self.ctx_stack: List[str] = []  # analysis context ids
        self.chain: List[str] = []  # function qualnames being analysed, root first
        self.analysed_funcs: Set[str] = set()
        self.recursion_cut: Set[str] = set()
        self.spawned: Set[str] = set()
        self.loop_records: Dict[Tuple[str, int], Dict[str, Any]] = {}
        self.loop_stack: List[Dict[str, Any]] = []
        self._ghost = 0
        self.skipped: List[str] = []
        self.ret_stack: List[List[AVal]] = []
        self.yield_stack: List[List[AVal]] = []
        self.tainted_attrs: Set[str] = set()
        self.tainted_attrs_grew = False
        self.attr_vals: Dict[str, AVal] = {}  # attribute name -> join of stored container shapes (may-flow, never used to discharge)
        self._last_val: AVal = AVal()

    # ------------------------------------------------------------ context
    @property
    def fi(self) -> FuncInfo:
        return self.interp.act.fi

    @property
    def ctx(self) -> str:
        return self.ctx_stack[-1] if self.ctx_stack else ""

    def where(self, node: ast.AST) -> str:
        fi = self.fi
        return f"{fi.module.relpath}:{getattr(node, 'lineno', fi.lineno)} {fi.qualname}"

    # ------------------------------------------------------------ domain interface (generic parts)
    def join(self, a, b):
        return st_join(a, b)

    def join_head(self, a, b):
        """Join at a loop head: additionally look for order relations between atoms that occur in
        equalities of either state (x <= y holding on entry and on the back edge is a loop invariant
        even when neither state lists it explicitly)."""
        j = st_join(a, b)
        if a is None or b is None or j is None:
            return j
        atoms = set()
        for E in list(a.f.eq) + list(b.f.eq):
            for x in E.atoms():
                atoms.add(x)
        atoms = sorted(atoms)
        if not (2 <= len(atoms) <= 10):
            return j
        f = j.f
        for i, x in enumerate(atoms):
            for y in atoms[i + 1:]:
                d = Lin.atom(x) - Lin.atom(y)
                for L in (d, -d):
                    if L in f.ge:
                        continue
                    if a.f.entails_ge(L) and b.f.entails_ge(L) and not f.entails_ge(L):
                        f2 = f.add_ge(L)
                        f = f2 if f2 is not None else f
        return j.with_f(f) or j

    def equal(self, a, b) -> bool:
        return st_equal(a, b)

    def widen(self, old, new, n: int):
        if n >= 3:
            return st_widen(old, new)
        return new

    def define(self, st: St, s) -> St:
        return st.define(s.name, False)

    def dead_handler(self, h, interp) -> None:
        pass

    def handler_enter(self, st: St, h: ast.ExceptHandler, names: List[str]) -> St:
        if h.name:
            st = self.kill_names(st, [h.name]).define(h.name, False)
        return st

    def on_return(self, st: St, s: ast.Return) -> St:
        if self.ret_stack:
            self.ret_stack[-1].append(self._last_val if s.value is not None else AVal.of_const(None))
        return st

    def loop_iter(self, s) -> None:
        old = self.loop_records.get((self.ctx, id(s)), {})
        rec = {"back": [], "node": s, "func": self.fi.qualname}
        for k in ("range", "iter_taint", "tied", "local_bound"):
            if k in old:
                rec[k] = old[k]
        self.loop_records[(self.ctx, id(s))] = rec

    def loop_done(self, s, head, body_entry, back, interp) -> None:
        pass

    def fresh_ghost(self, node: ast.AST, tag: str) -> str:
        return f"#{tag}{getattr(node, 'lineno', 0)}_{getattr(node, 'col_offset', 0)}"

    # ------------------------------------------------------------ kills
    def kill_names(self, st: St, names) -> St:
        return st.with_f(st.f.kill(names=names))

    def kill_heap(self, st: St, attrs=None) -> St:
        keep = [p for p in st.f.preds if p[0] == "notnone" and isinstance(p[1], str) and "." in p[1]
                and "[" not in p[1] and self.sticky_notnone(p[1].rsplit(".", 1)[1])]
        if attrs is None:
            f = st.f.kill(all_heap=True)
        else:
            f = st.f.kill(attrs=attrs)
        for p in keep:
            # only the final attribute may have been reassigned; the path prefix must be stable (self.x)
            if p[1].count(".") == 1:
                f = f.add_pred(p)
        return st.with_f(f)

    def sticky_notnone(self, attr: str) -> bool:
        """No assignment of None (or of a possibly-None value we cannot see) to `.attr` outside __init__:
        once the attribute is known to be non-None it stays so."""
        cache = self.__dict__.get("_sticky_cache")
        if cache is None:
            cache = {}
            bad = set()
            for fi in self.prog.functions.values():
                if fi.name == "__init__":
                    continue
                for n in ast.walk(fi.node):
                    tgts = []
                    if isinstance(n, ast.Assign):
                        tgts = [(t, n.value) for t in n.targets]
                    elif isinstance(n, ast.AnnAssign) and n.value is not None:
                        tgts = [(n.target, n.value)]
                    for t, v in tgts:
                        if isinstance(t, ast.Attribute):
                            if isinstance(v, ast.Constant) and v.value is None:
                                bad.add(t.attr)
                            elif isinstance(v, (ast.IfExp, ast.BoolOp)):
                                bad.add(t.attr)
                            elif isinstance(v, ast.Call) and isinstance(v.func, ast.Attribute) and v.func.attr in ("get", "pop"):
                                bad.add(t.attr)
                        elif isinstance(t, (ast.Tuple, ast.List)):
                            for x in ast.walk(t):
                                if isinstance(x, ast.Attribute):
                                    bad.add(x.attr)
            cache["__bad__"] = bad
            self._sticky_cache = cache
        return attr not in cache["__bad__"]

    # ------------------------------------------------------------ running
    def initial_state(self, fi: FuncInfo, facts: Facts = None, tainted: Set[str] = None) -> St:
        params = set(fi.params)
        p: Optional[FuncInfo] = fi.parent
        # closures: names of enclosing functions are considered defined
        while p is not None:
            params |= set(p.params)
            for n in ast.walk(p.node):
                if isinstance(n, ast.Name) and isinstance(n.ctx, ast.Store):
                    params.add(n.id)
            p = p.parent
        t = set(tainted or ()) | self.cfg.taint_params.get(fi.qualname, set())
        return St(facts or Facts(), frozenset(params), frozenset(t))

    def analyze_root(self, fi: FuncInfo) -> Summary:
        return self.analyze(fi, (), Facts(), set(), {})

    def analyze(self, fi: FuncInfo, sig: Any, facts: Facts, tainted: Set[str], pvals: Dict[str, AVal],
                assume_inv: bool = True) -> Summary:
        key = (fi.qualname, sig, assume_inv)
        if key in self.memo:
            return self.memo[key]
        if any(k[0] == fi.qualname for k in self.in_progress):
            self.recursion_cut.add(fi.qualname)
            return Summary()
        self.in_progress.append(key)
        self.ctx_stack.append(f"{fi.qualname}|{sig!r}")
        self.chain.append(fi.qualname)
        self.analysed_funcs.add(fi.qualname)
        saved_pvals = getattr(self, "_pvals", None)
        self._pvals = pvals
        self.ret_stack.append([])
        self.yield_stack.append([])
        try:
            if assume_inv:
                facts = self.with_invariants(fi, facts)
            st = self.initial_state(fi, facts, tainted)
            act = self.interp.run(fi, st)
            summ = Summary()
            from .absint_call import Origin
            for exc_name, _st, node, witness in act.escapes:
                if not witness:
                    witness = [Origin(fi.qualname, node, "raise", exc_name, "explicit raise", fi.module.relpath,
                                      getattr(node, "lineno", fi.lineno))]
                lst = summ.raises.setdefault(exc_name, [])
                if len(lst) < 80 and all(w[0].key != witness[0].key for w in lst):
                    lst.append(list(witness))
            from .lin import join_facts
            ex = None
            for rst, _rn in act.returns:
                ex = rst.f if ex is None else join_facts(ex, rst.f)
            summ.exit = ex
            rets = self.ret_stack[-1]
            if isinstance(fi.node, ast.Lambda):
                rets = [self._last_val]
            elif any(rn is None for (_s, rn) in act.returns):
                rets = rets + [AVal.of_const(None)]
            ret: Optional[AVal] = None
            for i, v in enumerate(rets):
                ret = v if i == 0 else (self.join_vals(ret, v) if ret is not None else None)
            summ.ret = ret
            ys = self.yield_stack[-1]
            if ys:
                el = ys[0]
                for y in ys[1:]:
                    el = self.join_vals(el, y) or AVal(taint=el.taint or y.taint)
                summ.ret = AVal(kind="list", elem=el, taint=any(y.taint for y in ys))
        finally:
            self._pvals = saved_pvals
            self.ret_stack.pop()
            self.yield_stack.pop()
            self.chain.pop()
            self.ctx_stack.pop()
            self.in_progress.pop()
        self.memo[key] = summ
        return summ

    def join_vals(self, a: Optional[AVal], b: Optional[AVal]) -> Optional[AVal]:
        if a is None or b is None:
            return None
        out = AVal()
        out.kind = a.kind if a.kind == b.kind else None
        out.taint = a.taint or b.taint
        out.maybe_none = a.maybe_none or b.maybe_none or (a.kind == "none") != (b.kind == "none")
        if a.kind == "none" and b.kind != "none":
            c = b.copy(); c.maybe_none = True; c.const = NOCONST; c.lin = None
            return c
        if b.kind == "none" and a.kind != "none":
            c = a.copy(); c.maybe_none = True; c.const = NOCONST; c.lin = None
            return c
        if a.const is not NOCONST and b.const is not NOCONST and a.const == b.const and type(a.const) is type(b.const):
            return a
        if a.lo is not None and b.lo is not None:
            out.lo = min(a.lo, b.lo)
        if a.hi is not None and b.hi is not None:
            out.hi = max(a.hi, b.hi)
        if a.length is not None and b.length is not None and a.length == b.length and a.length.is_const():
            out.length = a.length
        if a.elems is not None and b.elems is not None and len(a.elems) == len(b.elems):
            out.elems = [self.join_vals(x, y) or AVal() for x, y in zip(a.elems, b.elems)]
        if a.elem is not None and b.elem is not None:
            out.elem = self.join_vals(a.elem, b.elem)
        return out

    def with_invariants(self, fi: FuncInfo, facts: Optional[Facts]) -> Optional[Facts]:
        inv = getattr(self, "invariants", None)
        if inv is None or fi.cls is None or fi.parent is not None or fi.name == "__init__" or not fi.params or fi.params[0] != "self":
            return facts
        iv = inv.for_class(fi.cls)
        if iv is None:
            return facts
        f = facts or Facts()
        for G in iv.ge:
            f2 = f.add_ge(G); f = f2 if f2 is not None else f
        for E in iv.eq:
            f2 = f.add_eq(E); f = f2 if f2 is not None else f
        for p in iv.preds:
            f = f.add_pred(p)
        return f

    def held_invariants(self, st: St) -> List[Any]:
        """Class invariants of the current method's class that hold in `st` (to be re-established after a
        call to another method of the same object or a suspension point)."""
        inv = getattr(self, "invariants", None)
        if inv is None or not self.interp.stack:
            return []
        fi = self.fi
        if fi.cls is None or not fi.params or fi.params[0] != "self":
            return []
        iv = inv.for_class(fi.cls) if fi.name != "__init__" else None
        if iv is None:
            return []
        out = []
        for G in iv.ge:
            if G in st.f.ge or st.f.entails_ge(G):
                out.append(("ge", G))
        for E in iv.eq:
            if E in st.f.eq or st.f.entails_eq(E):
                out.append(("eq", E))
        for p in iv.preds:
            if p in st.f.preds or self.float_pred_holds(st, p):
                out.append(("pred", p))
        return out

    def float_pred_holds(self, st: St, p) -> bool:
        if p[0] == "flo":
            return any(q[0] == "flo" and q[1] == p[1] and q[2] >= p[2] for q in st.f.preds)
        if p[0] == "fhi":
            return any(q[0] == "fhi" and q[1] == p[1] and q[2] <= p[2] for q in st.f.preds)
        return False

    def restore(self, st: St, held: List[Any]) -> St:
        f = st.f
        for kind, x in held:
            if kind == "ge":
                f2 = f.add_ge(x)
            elif kind == "eq":
                f2 = f.add_eq(x)
            else:
                f2 = f.add_pred(x)
            f = f2 if f2 is not None else f
        return st.with_f(f) or st

    def new_pass(self) -> None:
        """Forget per-context results but keep the name-based heap knowledge (tainted attribute names,
        stored container shapes) so that a second pass sees stores regardless of analysis order."""
        self.obs.clear()
        self.memo.clear()
        self.loop_records.clear()
        self.analysed_funcs.clear()
        self.__dict__.pop("_name_vals", None)

    def heap_signature(self):
        def shape(v, d=0):
            if v is None or d > 4:
                return None
            return (v.kind, v.lo, v.hi, v.taint, shape(v.elem, d + 1), tuple(shape(x, d + 1) for x in v.elems) if v.elems is not None else None)
        return (frozenset(self.tainted_attrs), tuple(sorted((k, shape(v)) for k, v in self.attr_vals.items())))

    # ------------------------------------------------------------ results
    def results(self) -> Dict[Tuple[str, int, str], List[Ob]]:
        """Obligations grouped by (function, node id, kind) across contexts."""
        out: Dict[Tuple[str, int, str], List[Ob]] = {}
        for (ctx, fn, nid, kind), ob in self.obs.items():
            out.setdefault((fn, nid, kind), []).append(ob)
        return out
