"""Facts domain: forward abstract interpretation with linear length/cursor facts,
intervals, taint (wire-derived data), definite assignment, and *obligations*:
raise-capable operations that must be discharged by a dominating fact or an enclosing
handler.  Interprocedural by context inlining (callee re-analysed with the caller's
constant facts about the arguments, memoised by argument signature).

The expression/statement/call parts live in mix-ins (absint_expr, absint_stmt,
absint_call) to keep files readable.
"""
from __future__ import annotations

import ast
from dataclasses import dataclass, field
from typing import Any, Dict, FrozenSet, List, Optional, Set, Tuple

from .aval import AVal, NOCONST, St, st_equal, st_join, st_widen
from .callgraph import CallGraph
from .flow import ExcTable, Interp
from .index import AnalysisError, FuncInfo, Program, unparse
from .lin import Facts, Lin
from .types import Types


@dataclass
class Ob:
    """One obligation (latest visit in one analysis context)."""
    func: str
    node: ast.AST
    kind: str  # unpack | index | key | assert | div | shift | none | unbound | decode | pack | progress | cost | raise
    exc: str
    ok: bool
    message: str
    by: str = ""  # what discharged it
    ctx: str = ""
    chain: Tuple[str, ...] = ()
    status: str = ""  # "skipped" for untainted/undecided operations (not findings)


@dataclass
class Summary:
    raises: Dict[str, List[List[Any]]] = field(default_factory=dict)  # exc -> witnesses [Origin, call sites...]
    ret: Optional[AVal] = None
    writes_all: bool = False


class Config:
    """What the domain checks and where."""

    def __init__(self) -> None:
        self.taint_params: Dict[str, Set[str]] = {}  # func qualname -> tainted parameter names
        self.wire_classes: Set[str] = set()  # class qualnames whose attributes are wire data
        self.none_fields: Set[Tuple[str, str]] = set()  # (class qualname, field) subject to the None rule
        self.div_all_modules: Set[str] = set()  # modules where every non-constant divisor is an obligation
        self.inline_depth = 4
        self.assert_scope: Optional[Set[str]] = None  # function qualnames whose asserts are obligations (None = all analysed)
        self.detached_calls = True  # ensure_future(f()) does not propagate exceptions to the caller
        self.ext_raises: Dict[str, List[str]] = {}  # dotted external callable -> exception names
        self.exempt_asserts: Set[Tuple[str, str]] = set()  # (func qualname, normalised construct)
        self.exempt_unbound: Set[Tuple[str, str]] = set()  # (func qualname, variable)
        self.decode_obligation = True
        self.tainted_self_fields: Dict[str, Set[str]] = {}  # class qualname -> fields holding wire-derived ints


from .absint_expr import ExprMixin  # noqa: E402
from .absint_stmt import StmtMixin  # noqa: E402
from .absint_call import CallMixin  # noqa: E402


class Absint(ExprMixin, StmtMixin, CallMixin):
    def __init__(self, prog: Program, cfg: Config, types: Types = None, cg: CallGraph = None) -> None:
        self.prog = prog
        self.cfg = cfg
        self.types = types or Types(prog)
        self.cg = cg or CallGraph(prog, self.types)
        self.exc = ExcTable(prog)
        self.interp = Interp(self, self.exc)
        self.obs: Dict[Tuple[str, str, int, str], Ob] = {}
        self.memo: Dict[Tuple[str, Any], Summary] = {}
        self.in_progress: List[Tuple[str, Any]] = []
        self.ctx_stack: List[str] = []  # analysis context ids
        self.chain: List[str] = []  # function qualnames being analysed, root first
        self.analysed_funcs: Set[str] = set()
        self.recursion_cut: Set[str] = set()
        self.spawned: Set[str] = set()
        self.loop_records: Dict[Tuple[str, int], Dict[str, Any]] = {}
        self.loop_stack: List[Dict[str, Any]] = []
        self._ghost = 0
        self.skipped: List[str] = []
        self.ret_stack: List[List[AVal]] = []
        self._last_val: AVal = AVal()

    # ------------------------------------------------------------ context
    @property
    def fi(self) -> FuncInfo:
        return self.interp.act.fi

    @property
    def ctx(self) -> str:
        return self.ctx_stack[-1] if self.ctx_stack else ""

    def where(self, node: ast.AST) -> str:
        fi = self.fi
        return f"{fi.module.relpath}:{getattr(node, 'lineno', fi.lineno)} {fi.qualname}"

    # ------------------------------------------------------------ domain interface (generic parts)
    def join(self, a, b):
        return st_join(a, b)

    def equal(self, a, b) -> bool:
        return st_equal(a, b)

    def widen(self, old, new, n: int):
        if n >= 3:
            return st_widen(old, new)
        return new

    def define(self, st: St, s) -> St:
        return st.define(s.name, False)

    def dead_handler(self, h, interp) -> None:
        pass

    def handler_enter(self, st: St, h: ast.ExceptHandler, names: List[str]) -> St:
        if h.name:
            st = self.kill_names(st, [h.name]).define(h.name, False)
        return st

    def on_return(self, st: St, s: ast.Return) -> St:
        if self.ret_stack:
            self.ret_stack[-1].append(self._last_val if s.value is not None else AVal.of_const(None))
        return st

    def loop_iter(self, s) -> None:
        self.loop_records[(self.ctx, id(s))] = {"back": [], "node": s, "func": self.fi.qualname}

    def loop_done(self, s, head, body_entry, back, interp) -> None:
        pass

    def fresh_ghost(self, node: ast.AST, tag: str) -> str:
        return f"#{tag}{getattr(node, 'lineno', 0)}_{getattr(node, 'col_offset', 0)}"

    # ------------------------------------------------------------ kills
    def kill_names(self, st: St, names) -> St:
        return st.with_f(st.f.kill(names=names))

    def kill_heap(self, st: St, attrs=None) -> St:
        if attrs is None:
            return st.with_f(st.f.kill(all_heap=True))
        return st.with_f(st.f.kill(attrs=attrs))

    # ------------------------------------------------------------ running
    def initial_state(self, fi: FuncInfo, facts: Facts = None, tainted: Set[str] = None) -> St:
        params = set(fi.params)
        p: Optional[FuncInfo] = fi.parent
        # closures: names of enclosing functions are considered defined
        while p is not None:
            params |= set(p.params)
            for n in ast.walk(p.node):
                if isinstance(n, ast.Name) and isinstance(n.ctx, ast.Store):
                    params.add(n.id)
            p = p.parent
        t = set(tainted or ()) | self.cfg.taint_params.get(fi.qualname, set())
        return St(facts or Facts(), frozenset(params), frozenset(t))

    def analyze_root(self, fi: FuncInfo) -> Summary:
        return self.analyze(fi, (), Facts(), set(), {})

    def analyze(self, fi: FuncInfo, sig: Any, facts: Facts, tainted: Set[str], pvals: Dict[str, AVal]) -> Summary:
        key = (fi.qualname, sig)
        if key in self.memo:
            return self.memo[key]
        if any(k[0] == fi.qualname for k in self.in_progress):
            self.recursion_cut.add(fi.qualname)
            return Summary()
        self.in_progress.append(key)
        self.ctx_stack.append(f"{fi.qualname}|{sig!r}")
        self.chain.append(fi.qualname)
        self.analysed_funcs.add(fi.qualname)
        saved_pvals = getattr(self, "_pvals", None)
        self._pvals = pvals
        self.ret_stack.append([])
        try:
            st = self.initial_state(fi, facts, tainted)
            act = self.interp.run(fi, st)
            summ = Summary()
            from .absint_call import Origin
            for exc_name, _st, node, witness in act.escapes:
                if not witness:
                    witness = [Origin(fi.qualname, node, "raise", exc_name, "explicit raise", fi.module.relpath,
                                      getattr(node, "lineno", fi.lineno))]
                lst = summ.raises.setdefault(exc_name, [])
                if len(lst) < 80 and all(w[0].key != witness[0].key for w in lst):
                    lst.append(list(witness))
            rets = self.ret_stack[-1]
            if isinstance(fi.node, ast.Lambda):
                rets = [self._last_val]
            elif any(rn is None for (_s, rn) in act.returns):
                rets = rets + [AVal.of_const(None)]
            ret: Optional[AVal] = None
            for i, v in enumerate(rets):
                ret = v if i == 0 else (self.join_vals(ret, v) if ret is not None else None)
            summ.ret = ret
        finally:
            self._pvals = saved_pvals
            self.ret_stack.pop()
            self.chain.pop()
            self.ctx_stack.pop()
            self.in_progress.pop()
        self.memo[key] = summ
        return summ

    def join_vals(self, a: Optional[AVal], b: Optional[AVal]) -> Optional[AVal]:
        if a is None or b is None:
            return None
        out = AVal()
        out.kind = a.kind if a.kind == b.kind else None
        out.taint = a.taint or b.taint
        out.maybe_none = a.maybe_none or b.maybe_none or (a.kind == "none") != (b.kind == "none")
        if a.kind == "none" and b.kind != "none":
            c = b.copy(); c.maybe_none = True; c.const = NOCONST; c.lin = None
            return c
        if b.kind == "none" and a.kind != "none":
            c = a.copy(); c.maybe_none = True; c.const = NOCONST; c.lin = None
            return c
        if a.const is not NOCONST and b.const is not NOCONST and a.const == b.const and type(a.const) is type(b.const):
            return a
        if a.lo is not None and b.lo is not None:
            out.lo = min(a.lo, b.lo)
        if a.hi is not None and b.hi is not None:
            out.hi = max(a.hi, b.hi)
        if a.length is not None and b.length is not None and a.length == b.length and a.length.is_const():
            out.length = a.length
        if a.elems is not None and b.elems is not None and len(a.elems) == len(b.elems):
            out.elems = [self.join_vals(x, y) or AVal() for x, y in zip(a.elems, b.elems)]
        if a.elem is not None and b.elem is not None:
            out.elem = self.join_vals(a.elem, b.elem)
        return out

    # ------------------------------------------------------------ results
    def results(self) -> Dict[Tuple[str, int, str], List[Ob]]:
        """Obligations grouped by (function, node id, kind) across contexts."""
        out: Dict[Tuple[str, int, str], List[Ob]] = {}
        for (ctx, fn, nid, kind), ob in self.obs.items():
            out.setdefault((fn, nid, kind), []).append(ob)
        return out
