"""Light type facts: enough to resolve callees and container element types.

Not a type checker.  Types are small tuples:
  ('inst', ClassInfo) ('cls', ClassInfo) ('list', T) ('set', T) ('deque', T)
  ('dict', K, V) ('tuple', (T...)) ('union', (T...)) ('bytes',) ('int',) ('str',)
  ('float',) ('bool',) ('none',) ('ext', dotted) ('func', FuncInfo) ('module', Module)
  ('bound', FuncInfo)  -- a bound method value
  None = unknown
"""
from __future__ import annotations

import ast
from typing import Any, Dict, List, Optional, Tuple

from .index import ClassInfo, FuncInfo, Module, Program, mangle, walk_no_nested

T = Optional[tuple]

BUILTIN_TYPES = {
    "bytes": ("bytes",), "bytearray": ("bytes",), "int": ("int",), "str": ("str",), "float": ("float",),
    "bool": ("bool",), "None": ("none",),
}
SEQ = ("list", "set", "deque", "iter")


def union(types: List[T]) -> T:
    flat: List[tuple] = []
    for t in types:
        if t is None:
            continue
        if t[0] == "union":
            for x in t[1]:
                if x not in flat:
                    flat.append(x)
        elif t not in flat:
            flat.append(t)
    flat = [t for t in flat if t != ("none",)] or flat
    if not flat:
        return None
    if len(flat) == 1:
        return flat[0]
    return ("union", tuple(flat))


def members(t: T) -> List[tuple]:
    if t is None:
        return []
    if t[0] == "union":
        return list(t[1])
    return [t]


class Types:
    def __init__(self, prog: Program) -> None:
        self.prog = prog
        self._field_types: Dict[Tuple[str, str], T] = {}
        self._fields_done = False
        self._env_cache: Dict[str, Dict[str, T]] = {}
        self._ret_cache: Dict[str, T] = {}
        self._in_progress: set = set()
        self._global_types: Dict[Tuple[str, str], T] = {}

    # ------------------------------------------------------------ annotations
    def from_annotation(self, e: Optional[ast.expr], m: Module, cls: Optional[ClassInfo] = None) -> T:
        if e is None:
            return None
        if isinstance(e, ast.Constant):
            if e.value is None:
                return ("none",)
            if isinstance(e.value, str):
                try:
                    return self.from_annotation(ast.parse(e.value, mode="eval").body, m, cls)
                except SyntaxError:
                    return None
            return None
        if isinstance(e, ast.Name):
            if e.id in BUILTIN_TYPES:
                return BUILTIN_TYPES[e.id]
            if e.id in ("Any", "object"):
                return None
            if e.id in ("list", "List"):
                return ("list", None)
            if e.id in ("dict", "Dict"):
                return ("dict", None, None)
            if e.id in ("set", "Set"):
                return ("set", None)
            r = self.prog.resolve_name(m, e.id)
            if r is None:
                if cls is not None:
                    c: Optional[ClassInfo] = cls
                    while c is not None:
                        if e.id in c.inner:
                            return ("inst", c.inner[e.id])
                        c = c.outer
                return None
            if r[0] == "class":
                return ("inst", r[1])
            if r[0] == "const":
                mm, nn = r[1]
                # type alias such as DataChannelQueue = Deque[...] or AnyRtcpPacket = Union[...]
                return self.from_annotation(mm.assigns[nn], mm)
            if r[0] == "ext":
                return ("ext", r[1])
            return None
        if isinstance(e, ast.Attribute):
            c = self.prog.resolve_class_expr(m, e, cls)
            if c is not None:
                return ("inst", c)
            if isinstance(e.value, ast.Name):
                r = self.prog.resolve_name(m, e.value.id)
                if r and r[0] == "ext":
                    return ("ext", f"{r[1]}.{e.attr}")
            return None
        if isinstance(e, ast.BinOp) and isinstance(e.op, ast.BitOr):
            return union([self.from_annotation(e.left, m, cls), self.from_annotation(e.right, m, cls)])
        if isinstance(e, ast.Subscript):
            head = e.value
            hn = head.id if isinstance(head, ast.Name) else (head.attr if isinstance(head, ast.Attribute) else "")
            args = list(e.slice.elts) if isinstance(e.slice, ast.Tuple) else [e.slice]
            sub = [self.from_annotation(a, m, cls) for a in args]
            if hn == "Optional":
                return sub[0]
            if hn == "Union":
                return union(sub)
            if hn in ("list", "List", "Sequence", "Iterable", "MutableSequence"):
                return ("list", sub[0])
            if hn in ("Iterator", "Generator", "AsyncIterator"):
                return ("list", sub[0])
            if hn in ("set", "Set", "frozenset", "FrozenSet"):
                return ("set", sub[0])
            if hn in ("Deque", "deque"):
                return ("deque", sub[0])
            if hn in ("dict", "Dict", "Mapping", "MutableMapping", "OrderedDict", "DefaultDict"):
                return ("dict", sub[0], sub[1] if len(sub) > 1 else None)
            if hn in ("tuple", "Tuple"):
                if len(args) == 2 and isinstance(args[1], ast.Constant) and args[1].value is Ellipsis:
                    return ("list", sub[0])
                return ("tuple", tuple(sub))
            if hn in ("type", "Type"):
                t = sub[0]
                return union([("cls", x[1]) for x in members(t) if x[0] == "inst"])
            if hn in ("Callable", "Awaitable", "Coroutine", "Future"):
                return None
            if hn == "cast":
                return sub[0]
            return None
        return None

    # ------------------------------------------------------------ fields
    def _collect_fields(self) -> None:
        if self._fields_done:
            return
        self._fields_done = True
        prog = self.prog
        # pass 1: annotations (class level and self.x: T = ...)
        for ci in prog.classes.values():
            for name, ann in ci.ann.items():
                self._field_types[(ci.qualname, name)] = self.from_annotation(ann, ci.module, ci)
        for fi in prog.functions.values():
            if fi.cls is None:
                continue
            for n in walk_no_nested(fi.node):
                if isinstance(n, ast.AnnAssign) and self._is_self_attr(n.target, fi):
                    name = mangle(fi.cls.name, n.target.attr)
                    t = self.from_annotation(n.annotation, fi.module, fi.cls)
                    if t is not None:
                        self._field_types[(fi.cls.qualname, name)] = t
        # pass 2: assignments with inferable types (two rounds to propagate)
        for _ in range(2):
            for fi in prog.functions.values():
                if fi.cls is None:
                    continue
                for n in walk_no_nested(fi.node):
                    if isinstance(n, ast.Assign):
                        for tgt in n.targets:
                            if self._is_self_attr(tgt, fi):
                                name = mangle(fi.cls.name, tgt.attr)
                                key = (fi.cls.qualname, name)
                                if self._field_types.get(key) is None or self._weak(self._field_types.get(key)):
                                    t = self.type_of(n.value, fi)
                                    if t is not None and t != ("none",):
                                        old = self._field_types.get(key)
                                        self._field_types[key] = t if old is None or self._weak(old) and not self._weak(t) else old
            self._env_cache.clear()
            self._ret_cache.clear()

    @staticmethod
    def _weak(t: T) -> bool:
        return t is None or (t[0] in SEQ and t[1] is None) or (t[0] == "dict" and t[1] is None and t[2] is None)

    @staticmethod
    def _is_self_attr(t: ast.AST, fi: FuncInfo) -> bool:
        return (
            isinstance(t, ast.Attribute)
            and isinstance(t.value, ast.Name)
            and t.value.id == "self"
            and fi.cls is not None
            and bool(fi.params)
            and fi.params[0] == "self"
        )

    def field_type(self, ci: ClassInfo, attr: str, ctx_cls: Optional[ClassInfo] = None) -> T:
        self._collect_fields()
        for c in self.prog.mro(ci):
            name = mangle(ctx_cls.name if ctx_cls else None, attr) if attr.startswith("__") else attr
            if (c.qualname, name) in self._field_types:
                return self._field_types[(c.qualname, name)]
            if attr in c.attrs and attr not in c.methods:
                t = self.type_of_const_expr(c.attrs[attr], c.module)
                if t is not None:
                    return t
        return None

    def type_of_const_expr(self, e: ast.expr, m: Module) -> T:
        if isinstance(e, ast.Constant):
            return self._const_type(e.value)
        return None

    @staticmethod
    def _const_type(v: Any) -> T:
        if isinstance(v, bool):
            return ("bool",)
        if isinstance(v, int):
            return ("int",)
        if isinstance(v, (bytes, bytearray)):
            return ("bytes",)
        if isinstance(v, str):
            return ("str",)
        if isinstance(v, float):
            return ("float",)
        if v is None:
            return ("none",)
        return None

    # ------------------------------------------------------------ module globals
    def global_type(self, m: Module, name: str) -> T:
        key = (m.name, name)
        if key in self._global_types:
            return self._global_types[key]
        self._global_types[key] = None
        t: T = None
        if name in m.ann:
            t = self.from_annotation(m.ann[name], m)
        if (t is None or self._weak(t)) and name in m.assigns:
            t2 = self._type_of_module_expr(m.assigns[name], m)
            if t2 is not None:
                t = t2
        self._global_types[key] = t
        return t

    def _type_of_module_expr(self, e: ast.expr, m: Module) -> T:
        fake = FuncInfo(name="<module>", qualname=f"{m.name}.<module>", module=m, node=ast.Lambda(
            args=ast.arguments(posonlyargs=[], args=[], kwonlyargs=[], kw_defaults=[], defaults=[]), body=e))
        return self.type_of(e, fake, {})

    # ------------------------------------------------------------ local env
    def env(self, fi: FuncInfo) -> Dict[str, T]:
        if fi.qualname in self._env_cache:
            return self._env_cache[fi.qualname]
        env: Dict[str, T] = {}
        self._env_cache[fi.qualname] = env
        if fi.parent is not None:
            env.update(self.env(fi.parent))
        node = fi.node
        args = node.args
        allargs = args.posonlyargs + args.args + args.kwonlyargs
        for i, a in enumerate(allargs):
            t = self.from_annotation(a.annotation, fi.module, fi.cls)
            if i == 0 and fi.cls is not None and fi.parent is None:
                if fi.kind in ("method", "property", "setter") and a.arg == "self":
                    t = ("inst", fi.cls)
                elif fi.kind == "classmethod":
                    t = ("cls", fi.cls)
            env[a.arg] = t
        if isinstance(node, ast.Lambda):
            return env
        for _ in range(2):
            for n in walk_no_nested(node):
                if isinstance(n, ast.Assign):
                    vt = self.type_of(n.value, fi, env)
                    for tgt in n.targets:
                        self._bind(tgt, vt, env)
                elif isinstance(n, ast.AnnAssign) and isinstance(n.target, ast.Name):
                    env[n.target.id] = self.from_annotation(n.annotation, fi.module, fi.cls)
                elif isinstance(n, (ast.For, ast.AsyncFor)):
                    it = self.type_of(n.iter, fi, env)
                    self._bind(n.target, self.elem_type(it), env)
                elif isinstance(n, (ast.With, ast.AsyncWith)):
                    for item in n.items:
                        if item.optional_vars is not None:
                            self._bind(item.optional_vars, self.type_of(item.context_expr, fi, env), env)
                elif isinstance(n, ast.NamedExpr) and isinstance(n.target, ast.Name):
                    env[n.target.id] = union([env.get(n.target.id), self.type_of(n.value, fi, env)])
                elif isinstance(n, ast.ExceptHandler) and n.name:
                    env[n.name] = None
                elif isinstance(n, ast.comprehension):
                    it = self.type_of(n.iter, fi, env)
                    self._bind(n.target, self.elem_type(it), env)
        return env

    def _bind(self, tgt: ast.AST, t: T, env: Dict[str, T]) -> None:
        if isinstance(tgt, ast.Name):
            old = env.get(tgt.id)
            env[tgt.id] = union([old, t]) if old is not None else t
        elif isinstance(tgt, (ast.Tuple, ast.List)):
            for i, el in enumerate(tgt.elts):
                et: T = None
                if t is not None and t[0] == "tuple" and i < len(t[1]):
                    et = t[1][i]
                elif t is not None and t[0] in SEQ:
                    et = t[1]
                self._bind(el, et, env)
        elif isinstance(tgt, ast.Starred):
            self._bind(tgt.value, None, env)

    def elem_type(self, t: T) -> T:
        out = []
        for x in members(t):
            if x[0] in SEQ:
                out.append(x[1])
            elif x[0] == "dict":
                out.append(x[1])
            elif x[0] == "tuple":
                out.append(union(list(x[1])))
            elif x[0] == "bytes":
                out.append(("int",))
            elif x[0] == "dict_items":
                out.append(("tuple", (x[1], x[2])))
            elif x[0] == "enumerate":
                out.append(("tuple", (("int",), x[1])))
        return union(out)

    # ------------------------------------------------------------ expressions
    def type_of(self, e: ast.expr, fi: FuncInfo, env: Dict[str, T] = None) -> T:
        if env is None:
            env = self.env(fi)
        m = fi.module
        if isinstance(e, ast.Constant):
            return self._const_type(e.value)
        if isinstance(e, ast.JoinedStr):
            return ("str",)
        if isinstance(e, ast.Name):
            if e.id in env:
                return env[e.id]
            r = self.prog.resolve_name(m, e.id)
            if r is None:
                # class-scope names (nested classes referenced from methods: self.State handled as attr)
                return None
            if r[0] == "class":
                return ("cls", r[1])
            if r[0] == "func":
                return ("func", r[1])
            if r[0] == "module":
                return ("module", r[1])
            if r[0] == "ext":
                return ("ext", r[1])
            if r[0] == "const":
                mm, nn = r[1]
                return self.global_type(mm, nn)
            return None
        if isinstance(e, ast.Await):
            return self.type_of(e.value, fi, env)
        if isinstance(e, ast.Attribute):
            vt = self.type_of(e.value, fi, env)
            out = []
            for x in members(vt):
                if x[0] == "inst":
                    meth = self.prog.find_method(x[1], e.attr)
                    if meth is not None:
                        if meth.kind == "property":
                            out.append(self.return_type(meth))
                        else:
                            out.append(("bound", meth))
                        continue
                    ft = self.field_type(x[1], e.attr, fi.cls)
                    if ft is not None:
                        out.append(ft)
                        continue
                    inner = None
                    for c in self.prog.mro(x[1]):
                        if e.attr in c.inner:
                            inner = c.inner[e.attr]
                    if inner is not None:
                        out.append(("cls", inner))
                elif x[0] == "cls":
                    meth = self.prog.find_method(x[1], e.attr)
                    if meth is not None:
                        out.append(("bound", meth))
                        continue
                    inner = None
                    for c in self.prog.mro(x[1]):
                        if e.attr in c.inner:
                            inner = c.inner[e.attr]
                    if inner is not None:
                        out.append(("cls", inner))
                        continue
                    a = self.prog.class_attr_expr(x[1], e.attr)
                    if a is not None:
                        # enum member or class constant
                        bases = [b.attr if isinstance(b, ast.Attribute) else getattr(b, "id", "") for b in x[1].base_exprs]
                        if any(b in ("Enum", "IntEnum") for b in bases):
                            out.append(("inst", x[1]))
                        else:
                            out.append(self.type_of_const_expr(a[1], a[0].module))
                elif x[0] == "module":
                    r = self.prog.resolve_name(x[1], e.attr)
                    if r:
                        if r[0] == "class":
                            out.append(("cls", r[1]))
                        elif r[0] == "func":
                            out.append(("func", r[1]))
                        elif r[0] == "const":
                            out.append(self.global_type(r[1][0], r[1][1]))
                        elif r[0] == "ext":
                            out.append(("ext", r[1]))
                elif x[0] == "ext":
                    out.append(("ext", f"{x[1]}.{e.attr}"))
            return union(out)
        if isinstance(e, ast.Call):
            return self._call_type(e, fi, env)
        if isinstance(e, ast.Subscript):
            vt = self.type_of(e.value, fi, env)
            out = []
            for x in members(vt):
                if isinstance(e.slice, ast.Slice):
                    out.append(x)
                elif x[0] in ("list", "deque"):
                    out.append(x[1])
                elif x[0] == "dict":
                    out.append(x[2])
                elif x[0] == "bytes":
                    out.append(("int",))
                elif x[0] == "tuple":
                    idx = self.prog.try_const(e.slice, m)
                    if isinstance(idx, int) and -len(x[1]) <= idx < len(x[1]):
                        out.append(x[1][idx])
                    else:
                        out.append(union(list(x[1])))
            return union(out)
        if isinstance(e, (ast.List, ast.ListComp)):
            if isinstance(e, ast.List):
                return ("list", union([self.type_of(x, fi, env) for x in e.elts]))
            return ("list", self._comp_elt_type(e, fi, env))
        if isinstance(e, (ast.Set, ast.SetComp)):
            if isinstance(e, ast.Set):
                return ("set", union([self.type_of(x, fi, env) for x in e.elts]))
            return ("set", self._comp_elt_type(e, fi, env))
        if isinstance(e, ast.GeneratorExp):
            return ("list", self._comp_elt_type(e, fi, env))
        if isinstance(e, ast.Dict):
            return ("dict", union([self.type_of(k, fi, env) for k in e.keys if k is not None]),
                    union([self.type_of(v, fi, env) for v in e.values]))
        if isinstance(e, ast.DictComp):
            env2 = dict(env)
            for g in e.generators:
                self._bind(g.target, self.elem_type(self.type_of(g.iter, fi, env2)), env2)
            return ("dict", self.type_of(e.key, fi, env2), self.type_of(e.value, fi, env2))
        if isinstance(e, ast.Tuple):
            return ("tuple", tuple(self.type_of(x, fi, env) for x in e.elts))
        if isinstance(e, ast.BinOp):
            lt = self.type_of(e.left, fi, env)
            rt = self.type_of(e.right, fi, env)
            for t in (lt, rt):
                if t in (("bytes",), ("str",), ("float",)):
                    return t
            if lt is not None and lt[0] == "list":
                return lt
            if lt == ("int",) or rt == ("int",):
                return ("int",)
            return None
        if isinstance(e, ast.BoolOp):
            return union([self.type_of(v, fi, env) for v in e.values])
        if isinstance(e, ast.IfExp):
            return union([self.type_of(e.body, fi, env), self.type_of(e.orelse, fi, env)])
        if isinstance(e, ast.Compare):
            return ("bool",)
        if isinstance(e, ast.UnaryOp):
            if isinstance(e.op, ast.Not):
                return ("bool",)
            return self.type_of(e.operand, fi, env)
        if isinstance(e, ast.Lambda):
            sub = self.prog.func_of_node.get(id(e))
            return ("func", sub) if sub else None
        if isinstance(e, ast.NamedExpr):
            return self.type_of(e.value, fi, env)
        if isinstance(e, ast.Starred):
            return self.type_of(e.value, fi, env)
        return None

    def _comp_elt_type(self, e, fi: FuncInfo, env: Dict[str, T]) -> T:
        env2 = dict(env)
        for g in e.generators:
            self._bind(g.target, self.elem_type(self.type_of(g.iter, fi, env2)), env2)
        return self.type_of(e.elt, fi, env2)

    def _call_type(self, e: ast.Call, fi: FuncInfo, env: Dict[str, T]) -> T:
        f = e.func
        m = fi.module
        if isinstance(f, ast.Name) and f.id not in env:
            n = f.id
            local_def = self.prog.resolve_name(m, n)
            if local_def is None:
                if n in ("bytes", "bytearray"):
                    return ("bytes",)
                if n in ("int", "len", "ord", "round", "abs", "id", "hash", "sum"):
                    return ("int",)
                if n in ("str", "repr", "chr", "hex"):
                    return ("str",)
                if n == "float":
                    return ("float",)
                if n in ("bool", "isinstance", "hasattr", "callable", "any", "all"):
                    return ("bool",)
                if n in ("list", "sorted", "reversed", "iter", "filter"):
                    if n == "filter" and len(e.args) == 2:
                        return ("list", self.elem_type(self.type_of(e.args[1], fi, env)))
                    if e.args:
                        return ("list", self.elem_type(self.type_of(e.args[0], fi, env)))
                    return ("list", None)
                if n in ("set", "frozenset"):
                    return ("set", self.elem_type(self.type_of(e.args[0], fi, env)) if e.args else None)
                if n == "tuple":
                    return ("list", self.elem_type(self.type_of(e.args[0], fi, env)) if e.args else None)
                if n == "dict":
                    if e.args:
                        a = self.type_of(e.args[0], fi, env)
                        et = self.elem_type(a) if a is not None and a[0] != "dict" else None
                        if a is not None and a[0] == "dict":
                            return a
                        if et is not None and et[0] == "tuple" and len(et[1]) == 2:
                            return ("dict", et[1][0], et[1][1])
                    return ("dict", None, None)
                if n == "enumerate" and e.args:
                    return ("enumerate", self.elem_type(self.type_of(e.args[0], fi, env)))
                if n == "zip":
                    return ("list", ("tuple", tuple(self.elem_type(self.type_of(a, fi, env)) for a in e.args)))
                if n == "range":
                    return ("list", ("int",))
                if n in ("min", "max"):
                    if len(e.args) == 1:
                        return self.elem_type(self.type_of(e.args[0], fi, env))
                    return union([self.type_of(a, fi, env) for a in e.args])
                if n == "cast" and len(e.args) == 2:
                    return self.from_annotation(e.args[0], m, fi.cls) or self.type_of(e.args[1], fi, env)
                if n == "next" and e.args:
                    return self.elem_type(self.type_of(e.args[0], fi, env))
                if n == "super":
                    if fi.cls is not None:
                        mro = self.prog.mro(fi.cls)
                        if len(mro) > 1:
                            return ("inst", mro[1])
                    return None
                if n == "getattr":
                    return None
                return None
        if isinstance(f, ast.Name) and f.id == "cast" and len(e.args) == 2:
            return self.from_annotation(e.args[0], m, fi.cls) or self.type_of(e.args[1], fi, env)
        ft = self.type_of(f, fi, env)
        out = []
        for x in members(ft):
            if x[0] == "cls":
                out.append(("inst", x[1]))
            elif x[0] in ("func", "bound"):
                out.append(self.return_type(x[1]))
            elif x[0] == "ext":
                out.append(self._ext_call_type(x[1], e, fi, env))
        if not out and isinstance(f, ast.Attribute):
            # methods of builtin containers / bytes / str
            vt = self.type_of(f.value, fi, env)
            for x in members(vt):
                out.append(self._builtin_method_type(x, f.attr, e, fi, env))
        return union(out)

    def _ext_call_type(self, dotted: str, e: ast.Call, fi: FuncInfo, env) -> T:
        if dotted in ("struct.pack",):
            return ("bytes",)
        if dotted in ("struct.unpack", "struct.unpack_from"):
            return ("list", ("int",))
        if dotted in ("collections.deque",):
            return ("deque", None)
        if dotted in ("os.urandom",):
            return ("bytes",)
        if dotted in ("time.time",):
            return ("float",)
        if dotted in ("typing.cast",) and len(e.args) == 2:
            return self.from_annotation(e.args[0], fi.module, fi.cls)
        if dotted in ("math.ceil", "math.floor"):
            return ("int",)
        return ("ext", dotted + "()")

    def _builtin_method_type(self, x: tuple, attr: str, e: ast.Call, fi, env) -> T:
        if x[0] == "dict":
            if attr in ("get", "pop", "setdefault"):
                return x[2]
            if attr == "values":
                return ("list", x[2])
            if attr == "keys":
                return ("list", x[1])
            if attr == "items":
                return ("list", ("tuple", (x[1], x[2])))
            if attr == "copy":
                return x
        if x[0] in ("list", "deque", "set"):
            if attr in ("pop", "popleft"):
                return x[1]
            if attr == "copy":
                return x
            if attr in ("index", "count"):
                return ("int",)
        if x[0] == "bytes":
            if attr in ("decode", "hex"):
                return ("str",)
            if attr in ("find", "index", "count"):
                return ("int",)
            if attr == "join":
                return ("bytes",)
        if x[0] == "str":
            if attr == "encode":
                return ("bytes",)
            if attr in ("split", "splitlines"):
                return ("list", ("str",))
            if attr in ("lower", "upper", "strip", "join", "format", "replace", "lstrip", "rstrip"):
                return ("str",)
            if attr in ("startswith", "endswith", "isdigit"):
                return ("bool",)
        return None

    def return_type(self, fi: FuncInfo) -> T:
        if fi.qualname in self._ret_cache:
            return self._ret_cache[fi.qualname]
        self._ret_cache[fi.qualname] = None
        t: T = None
        if not isinstance(fi.node, ast.Lambda):
            t = self.from_annotation(fi.node.returns, fi.module, fi.cls)
            if fi.kind == "classmethod" and t is not None and fi.cls is not None:
                # "-> 'RtpPacket'" style annotations resolve directly
                pass
        if t is None and isinstance(fi.node, ast.Lambda):
            t = self.type_of(fi.node.body, fi)
        if t is None and fi.name == "__init__":
            t = ("none",)
        self._ret_cache[fi.qualname] = t
        return t
