"""Must-event analysis on the structured interpreter: which *events* (calls, assignments)
have definitely happened, and which branch guards definitely hold, at every program
point of one function — on all paths, including (optionally) exceptional ones.

Used for ordering / dominance / pairing rules:
  "X is dominated by Y"            -> Y in state.events at X
  "X only under guard G"           -> (G, True) in state.guards at X
  "every exit passes through Y"    -> Y in the events of every recorded exit state
"""
from __future__ import annotations

import ast
from typing import Any, Callable, Dict, FrozenSet, List, Optional, Set, Tuple

from .flow import ExcTable, Interp
from .index import FuncInfo, Program, unparse


class EvState:
    __slots__ = ("events", "guards", "_h")

    def __init__(self, events: FrozenSet[str] = frozenset(), guards: FrozenSet[Tuple[str, bool]] = frozenset()) -> None:
        self.events = events
        self.guards = guards
        self._h = hash((events, guards))

    def __eq__(self, o: object) -> bool:
        return isinstance(o, EvState) and self.events == o.events and self.guards == o.guards

    def __hash__(self) -> int:
        return self._h

    def add(self, *evs: str) -> "EvState":
        """Events are added in order; an event written "-name" removes `name` (kill), which turns the must-set into a
        'since the last kill' set."""
        cur = set(self.events)
        for x in evs:
            if x.startswith("-"):
                cur.discard(x[1:])
            else:
                cur.add(x)
        return EvState(frozenset(cur), self.guards)

    def guard(self, text: str, truth: bool) -> "EvState":
        return EvState(self.events, self.guards | {(text, truth)})

    def has_guard(self, text: str, truth: bool = True) -> bool:
        return (text, truth) in self.guards

    def __repr__(self) -> str:
        return f"Ev({sorted(self.events)}, {sorted(self.guards)})"


def _names_written(node: ast.AST) -> Set[str]:
    """Attribute names and local names assigned by a statement/expression."""
    out: Set[str] = set()
    for n in ast.walk(node):
        if isinstance(n, ast.Name) and isinstance(n.ctx, (ast.Store, ast.Del)):
            out.add(n.id)
        elif isinstance(n, ast.Attribute) and isinstance(n.ctx, (ast.Store, ast.Del)):
            out.add("." + n.attr)
    return out


class EventsDomain:
    """event_of(node, fi) -> list of event names produced by evaluating `node` (Call, Assign ...).
    observe(node, state, fi) is called for every statement and every call expression (pre-state).
    may_raise(node) -> exception names a call/await may raise (for exceptional-exit rules)."""

    def __init__(self, prog: Program, event_of: Callable[[ast.AST, FuncInfo], List[str]],
                 observe: Callable[[ast.AST, EvState, FuncInfo], None] = None,
                 may_raise: Callable[[ast.AST, FuncInfo], List[str]] = None,
                 kill_guards_on_call: bool = True) -> None:
        self.prog = prog
        self.event_of = event_of
        self.observe = observe or (lambda n, s, f: None)
        self.may_raise = may_raise
        self.exc = ExcTable(prog)
        self.interp = Interp(self, self.exc)
        self.kill_guards_on_call = kill_guards_on_call

    @property
    def fi(self) -> FuncInfo:
        return self.interp.act.fi

    # ---- lattice
    def join(self, a, b):
        if a is None:
            return b
        if b is None:
            return a
        return EvState(a.events & b.events, a.guards & b.guards)

    join_head = join

    def equal(self, a, b) -> bool:
        return a == b

    def widen(self, old, new, n):
        return new

    # ---- expressions
    def _walk_expr(self, st: EvState, e: ast.AST) -> EvState:
        """Evaluate an expression in evaluation order (approximately: children first)."""
        if isinstance(e, (ast.Lambda, ast.FunctionDef, ast.AsyncFunctionDef)):
            return st
        if isinstance(e, ast.BoolOp):
            # only the first operand is certainly evaluated
            st2 = self._walk_expr(st, e.values[0])
            return st2
        if isinstance(e, ast.IfExp):
            return self._walk_expr(st, e.test)
        for c in ast.iter_child_nodes(e):
            if isinstance(c, (ast.expr, ast.keyword, ast.comprehension)):
                st = self._walk_expr(st, c)
        if isinstance(e, (ast.Call, ast.Await)):
            self.observe(e, st, self.fi)
            if getattr(self, "events_before_raise", False):
                # "the call was reached" semantics: the event holds on the exceptional edges out of the call as well
                evs0 = self.event_of(e, self.fi)
                if evs0:
                    st = st.add(*evs0)
            # a call/await inside a try body may raise whatever the enclosing handlers are prepared to catch
            from .flow import TryFrame
            names = []
            for fr in self.interp.act.frames:
                if isinstance(fr, TryFrame) and fr.active:
                    for hn, _h in fr.handlers:
                        for n in hn:
                            if n not in names:
                                names.append(n)
            for n in names:
                self.interp.raise_exc(n, st, e, [])
            if self.may_raise is not None:
                for x in self.may_raise(e, self.fi):
                    self.interp.raise_exc(x, st, e, [])
            evs = self.event_of(e, self.fi)
            if evs:
                st = st.add(*evs)
        return st

    def eval(self, st: EvState, e: ast.expr):
        return self._walk_expr(st, e)

    def refine(self, st: EvState, test: ast.expr, truth: bool):
        st = st.guard(unparse(test), truth)
        on_refine = getattr(self, "on_refine", None)
        if on_refine is not None:
            evs = on_refine(unparse(test), truth)
            if evs:
                st = st.add(*evs)
        return st

    # ---- statements
    def at_stmt(self, s, st) -> None:
        self.observe(s, st, self.fi)

    def _kill(self, st: EvState, written: Set[str]) -> EvState:
        if not written:
            return st
        keep = set()
        for g, t in st.guards:
            dead = False
            for w in written:
                if w.startswith("."):
                    if w in g or w[1:] in g.split("."):
                        dead = True
                elif _mentions_name(g, w):
                    dead = True
            if not dead:
                keep.add((g, t))
        return EvState(st.events, frozenset(keep))

    def stmt(self, st: EvState, s: ast.stmt):
        for c in ast.iter_child_nodes(s):
            if isinstance(c, ast.expr) and not (isinstance(c, (ast.Name, ast.Attribute, ast.Subscript, ast.Tuple)) and isinstance(getattr(c, "ctx", None), ast.Store)):
                st = self._walk_expr(st, c)
        # subscripts/attributes on the target side: evaluate their value parts
        for t in getattr(s, "targets", []) + ([s.target] if hasattr(s, "target") and s.target is not None else []):
            for n in ast.walk(t):
                if isinstance(n, ast.Call):
                    st = self._walk_expr(st, n)
        st = self._kill(st, _names_written(s))
        evs = self.event_of(s, self.fi)
        if evs:
            st = st.add(*evs)
        return st

    def define(self, st, s):
        return st

    def on_return(self, st, s):
        return st

    def raise_names(self, st, s: ast.Raise) -> List[str]:
        if s.exc is None:
            return ["BaseException"]
        return self.exc.name_of(s.exc, self.fi.module)

    def on_assert(self, st_false, s, interp) -> None:
        interp.raise_exc("AssertionError", st_false, s, [])

    def with_item(self, st, item, s):
        st = self._walk_expr(st, item.context_expr)
        if item.optional_vars is not None:
            st = self._kill(st, _names_written(item.optional_vars))
        return st

    def with_exit(self, st, s):
        return st

    def handler_enter(self, st, h, names):
        return st

    def dead_handler(self, h, interp) -> None:
        pass

    def loop_iter(self, s) -> None:
        pass

    def loop_done(self, s, head, st, back, interp) -> None:
        pass

    def for_enter(self, st, s):
        return st

    def for_body(self, st, s):
        return self._kill(st, _names_written(s.target))

    def for_next(self, st, s):
        return st

    def for_exit(self, st, s):
        return st

    def while_body(self, st, s):
        return st

    def while_back(self, st, s, via):
        return st

    # ---- running
    def run(self, fi: FuncInfo, init: EvState = None):
        return self.interp.run(fi, init or EvState())


def _mentions_name(text: str, name: str) -> bool:
    import re
    return re.search(r"(?<![\w.])" + re.escape(name) + r"(?![\w])", text) is not None


def call_name(call: ast.AST) -> str:
    """Dotted text of the callee of a Call (or Await of a Call)."""
    if isinstance(call, ast.Await):
        call = call.value
    if isinstance(call, ast.Call):
        return unparse(call.func)
    return ""
