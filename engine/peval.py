"""Finite-domain partial evaluation of side-effect-free expressions and of small
straight-line/branching function bodies, over explicitly enumerated environments.

Not execution of aiortc: an AST interpreter for the pure fragment (constants, names bound
in the environment, comparisons, boolean operators, arithmetic, a whitelist of builtin
functions and str/list/dict methods).  Anything else raises Unknown, and the calling rule
treats that as 'cannot decide'.
"""
from __future__ import annotations

import ast
from typing import Any, Callable, Dict, List, Optional, Tuple

from .index import ClassInfo, Module, Program, Unknown, unparse

SAFE_BUILTINS = {"len": len, "min": min, "max": max, "abs": abs, "int": int, "bool": bool, "str": str, "bytes": bytes,
                 "list": list, "tuple": tuple, "set": set, "sorted": sorted, "range": range, "round": round, "any": any,
                 "all": all, "sum": sum, "isinstance": None, "frozenset": frozenset, "dict": dict, "float": float,
                 "enumerate": lambda *a: list(enumerate(*a)), "zip": lambda *a: list(zip(*a)), "reversed": lambda x: list(reversed(x)), "divmod": divmod, "pow": pow}
SAFE_METHODS = {"lower", "upper", "index", "get", "startswith", "endswith", "encode", "decode", "split", "strip",
                "keys", "values", "items", "count", "join", "find", "hex", "bit_length", "copy", "issubset", "union",
                "intersection", "add", "discard", "append", "pop", "remove", "extend", "update", "setdefault", "clear", "splitlines", "rstrip", "lstrip",
                "replace", "isdigit", "partition", "rpartition", "rsplit", "insert", "difference", "issuperset", "isdisjoint", "symmetric_difference", "title", "capitalize",
                "isalnum", "isalpha", "zfill", "format", "sort", "reverse", "popitem", "difference_update", "intersection_update", "casefold", "removeprefix", "removesuffix", "center", "ljust", "rjust"}


_EXC_PARENTS = {"UnicodeDecodeError": ("UnicodeError", "ValueError", "Exception"), "UnicodeEncodeError": ("UnicodeError", "ValueError", "Exception"),
                "KeyError": ("LookupError", "Exception"), "IndexError": ("LookupError", "Exception"), "ZeroDivisionError": ("ArithmeticError", "Exception"),
                "OverflowError": ("ArithmeticError", "Exception"), "ValueError": ("Exception",), "TypeError": ("Exception",), "AssertionError": ("Exception",),
                "AttributeError": ("Exception",), "StopIteration": ("Exception",), "ConnectionError": ("OSError", "Exception")}


class _SharedEnv(dict):
    pass


class Ret(Exception):
    def __init__(self, value: Any) -> None:
        self.value = value


class Raised(Exception):
    def __init__(self, name: str, node: ast.AST) -> None:
        self.name = name
        self.node = node


class Evaluator:
    def __init__(self, prog: Program, module: Module, cls: Optional[ClassInfo] = None, env: Dict[str, Any] = None,
                 call_hook: Callable[[ast.Call, "Evaluator"], Any] = None) -> None:
        self.prog = prog
        self.module = module
        self.cls = cls
        self.env: Dict[str, Any] = env if isinstance(env, _SharedEnv) else dict(env or {})
        self.call_hook = call_hook
        self.trace: List[str] = []

    # ------------------------------------------------------------ expressions
    def ev(self, e: ast.AST) -> Any:
        key = unparse(e) if isinstance(e, (ast.Name, ast.Attribute, ast.Subscript, ast.Call)) else None
        if key is not None and key in self.env:
            return self.env[key]
        if isinstance(e, ast.Constant):
            return e.value
        if isinstance(e, ast.Name):
            try:
                return self.prog.const(self.module, e.id)
            except Unknown:
                if SAFE_BUILTINS.get(e.id) is not None and e.id not in self.module.assigns:
                    return SAFE_BUILTINS[e.id]
                r = self.prog.resolve_name(self.module, e.id)
                if r and r[0] == "const":
                    mm, nn = r[1]
                    if nn in mm.assigns and nn.isupper():
                        cache = getattr(self.call_hook, "const_cache", None)
                        if cache is not None:
                            # module-level tables are objects with identity (code may mutate them at import time or later): evaluated once per hook
                            if (mm.name, nn) not in cache:
                                cache[(mm.name, nn)] = Evaluator(self.prog, mm, None, {}, self.call_hook).ev(mm.assigns[nn])
                            return cache[(mm.name, nn)]
                        return Evaluator(self.prog, mm, None, {}, self.call_hook).ev(mm.assigns[nn])
                rs = getattr(self.call_hook, "resolve", None)
                if rs is not None and r is not None:
                    v = rs(r)
                    if v is not NotImplemented:
                        return v
                raise
        if isinstance(e, ast.Attribute):
            # an object bound in the environment wins over class-level constants
            if isinstance(e.value, ast.Name) and e.value.id in self.env:
                base = self.env[e.value.id]
                if hasattr(base, "__dict__") and not isinstance(base, type) and e.attr in vars(base):
                    return vars(base)[e.attr]
                if hasattr(base, "__cls__"):
                    # an object of the rule's object model: class attributes and properties come from *its* class
                    ga = getattr(self.call_hook, "getattr", None)
                    if ga is not None:
                        r = ga(base, e.attr)
                        if r is not NotImplemented:
                            return r
            try:
                return self.prog.const_eval(e, self.module, self.cls)
            except Unknown:
                base = self.ev(e.value)
                if isinstance(base, dict) and e.attr in base:
                    return base[e.attr]
                if hasattr(base, "__dict__") and e.attr in vars(base):
                    return vars(base)[e.attr]
                ga = getattr(self.call_hook, "getattr", None)
                if ga is not None:
                    r = ga(base, e.attr)
                    if r is not NotImplemented:
                        return r
                import struct as _struct
                if isinstance(base, _struct.Struct) and e.attr in ("size", "format"):
                    return getattr(base, e.attr)
                if base is None:
                    raise Raised("AttributeError", e)       # None.<attr>: what Python does, not an evaluation gap
                raise Unknown(f"attribute {unparse(e)}")
        if isinstance(e, ast.UnaryOp):
            v = self.ev(e.operand)
            if isinstance(e.op, ast.Not):
                return not v
            if isinstance(e.op, ast.USub):
                return -v
            if isinstance(e.op, ast.Invert):
                return ~v
            return +v
        if isinstance(e, ast.BoolOp):
            if isinstance(e.op, ast.And):
                r: Any = True
                for v in e.values:
                    r = self.ev(v)
                    if not r:
                        return r
                return r
            r = False
            for v in e.values:
                r = self.ev(v)
                if r:
                    return r
            return r
        if isinstance(e, ast.IfExp):
            return self.ev(e.body) if self.ev(e.test) else self.ev(e.orelse)
        if isinstance(e, ast.Compare):
            left = self.ev(e.left)
            for op, c in zip(e.ops, e.comparators):
                right = self.ev(c)
                if not self._cmp(op, left, right):
                    return False
                left = right
            return True
        if isinstance(e, ast.BinOp):
            a, b = self.ev(e.left), self.ev(e.right)
            return _binop(e.op, a, b)
        if isinstance(e, (ast.Tuple, ast.List, ast.Set)):
            vals = [self.ev(x) for x in e.elts]
            return tuple(vals) if isinstance(e, ast.Tuple) else (list(vals) if isinstance(e, ast.List) else set(vals))
        if isinstance(e, ast.Dict):
            out_d = {}
            for k, v in zip(e.keys, e.values):
                try:
                    out_d[self.ev(k)] = self.ev(v)
                except Unknown:
                    # a registry whose values are foreign objects (e.g. hash constructors): membership / iteration over the keys still works
                    out_d[self.ev(k)] = _Opaque(unparse(v))
            return out_d
        if isinstance(e, ast.Subscript):
            base = self.ev(e.value)
            if isinstance(e.slice, ast.Slice):
                lo = self.ev(e.slice.lower) if e.slice.lower else None
                hi = self.ev(e.slice.upper) if e.slice.upper else None
                st = self.ev(e.slice.step) if e.slice.step else None
                return base[lo:hi:st]
            try:
                return base[self.ev(e.slice)]
            except (KeyError, IndexError) as ex:
                if isinstance(base, (dict, list, tuple, str, bytes)):
                    raise Raised(type(ex).__name__, e)
                raise Unknown(f"subscript {unparse(e)}: {ex}")
            except TypeError as ex:
                raise Unknown(f"subscript {unparse(e)}: {ex}")
        if isinstance(e, ast.JoinedStr):
            out = ""
            for v in e.values:
                if isinstance(v, ast.Constant):
                    out += str(v.value)
                else:
                    val = self.ev(v.value)
                    ts = getattr(self.call_hook, "to_str", None)
                    if ts is not None and hasattr(val, "__cls__"):
                        out += ts(val)
                    else:
                        out += format(val, self.ev(v.format_spec) if v.format_spec else "")
            return out
        if isinstance(e, ast.Await):
            return self.ev(e.value)
        if isinstance(e, ast.Yield):
            # generators are evaluated eagerly: the yielded values are collected and handed to the caller as a list
            # (sound only when the generator does not depend on what the consumer does between two yields)
            self.env.setdefault("__yields__", []).append(self.ev(e.value) if e.value is not None else None)
            return None
        if isinstance(e, ast.Call):
            return self._call(e)
        if isinstance(e, (ast.ListComp, ast.SetComp, ast.GeneratorExp)) and len(e.generators) == 1:
            g = e.generators[0]
            out = []
            for item in self.ev(g.iter):
                self._bind(g.target, item)
                if all(self.ev(c) for c in g.ifs):
                    out.append(self.ev(e.elt))
            return set(out) if isinstance(e, ast.SetComp) else out
        raise Unknown(f"cannot evaluate {type(e).__name__}: {unparse(e)[:60]}")

    def _bind(self, t: ast.AST, v: Any) -> None:
        if isinstance(t, ast.Name):
            self.env[t.id] = v
            if t.id in getattr(self, "nonlocals", ()) and getattr(self, "parent_env", None) is not None:
                self.parent_env[t.id] = v
        elif isinstance(t, (ast.Tuple, ast.List)):
            if isinstance(v, (list, tuple)) and len(v) != len(t.elts) and not any(isinstance(x, ast.Starred) for x in t.elts):
                raise Raised("ValueError", t)
            for x, y in zip(t.elts, v):
                self._bind(x, y)
        elif isinstance(t, ast.Subscript) and not isinstance(t.slice, ast.Slice):
            base = self.ev(t.value)
            if isinstance(base, (dict, list)):
                base[self.ev(t.slice)] = v
            else:
                self.env[unparse(t)] = v
        elif isinstance(t, (ast.Attribute, ast.Subscript)):
            if isinstance(t, ast.Attribute):
                try:
                    base = self.ev(t.value)
                    if hasattr(base, "__dict__") and not isinstance(base, type):
                        setattr(base, t.attr, v)
                        return
                except Unknown:
                    pass
            self.env[unparse(t)] = v
        else:
            raise Unknown("bind target")

    @staticmethod
    def _cmp(op: ast.cmpop, a: Any, b: Any) -> bool:
        try:
            if isinstance(op, ast.Eq):
                return a == b
            if isinstance(op, ast.NotEq):
                return a != b
            if isinstance(op, ast.Lt):
                return a < b
            if isinstance(op, ast.LtE):
                return a <= b
            if isinstance(op, ast.Gt):
                return a > b
            if isinstance(op, ast.GtE):
                return a >= b
            if isinstance(op, ast.In):
                return a in b
            if isinstance(op, ast.NotIn):
                return a not in b
            if isinstance(op, ast.Is):
                return a is b or (a is None and b is None)
            if isinstance(op, ast.IsNot):
                return not (a is b)
        except TypeError as ex:
            raise Unknown(str(ex))
        raise Unknown("cmp")

    def _args(self, e: ast.Call) -> List[Any]:
        """positional arguments with *iterable expanded"""
        out: List[Any] = []
        for a in e.args:
            if isinstance(a, ast.Starred):
                out.extend(list(self.ev(a.value)))
            else:
                out.append(self.ev(a))
        return out

    def _call(self, e: ast.Call) -> Any:
        if self.call_hook is not None:
            r = self.call_hook(e, self)
            if r is not NotImplemented:
                return r
        f = e.func
        if isinstance(f, ast.Name) and isinstance(self.env.get(f.id), _Closure):
            clo = self.env[f.id]
            sub = Evaluator(self.prog, self.module, self.cls, self.env, self.call_hook)
            sub.parent_env = self.env
            params = [p.arg for p in clo.node.args.args]
            defaults = clo.node.args.defaults
            for p, d in zip(params[len(params) - len(defaults):], defaults):
                sub.env[p] = self.ev(d)
            for p, a in zip(params, e.args):
                sub.env[p] = self.ev(a)
            for k in e.keywords:
                sub.env[k.arg] = self.ev(k.value)
            try:
                sub.exec_block(clo.node.body)
            except Ret as r:
                return r.value
            return None
        # next(iterable[, default]) / iter(x) / map(fn, xs) / filter(fn, xs): iterables are materialised lists here
        if isinstance(f, ast.Name) and f.id in ("next", "iter", "map", "filter") and f.id not in self.module.assigns and f.id not in self.env:
            if f.id == "iter" and len(e.args) == 1:
                return list(self.ev(e.args[0]))
            if f.id == "next" and e.args:
                seq = self.ev(e.args[0])
                seq = list(seq) if not isinstance(seq, list) else seq
                if seq:
                    return seq[0]
                if len(e.args) > 1:
                    return self.ev(e.args[1])
                raise Raised("StopIteration", e)
            if f.id in ("map", "filter") and len(e.args) == 2:
                fn, seq = e.args[0], list(self.ev(e.args[1]))
                out = []
                for x in seq:
                    if isinstance(fn, ast.Lambda):
                        sub = Evaluator(self.prog, self.module, self.cls, dict(self.env), self.call_hook)
                        sub.env[fn.args.args[0].arg] = x
                        r = sub.ev(fn.body)
                    else:
                        self.env["__hof_arg"] = x
                        r = self.ev(ast.Call(func=fn, args=[ast.Name(id="__hof_arg", ctx=ast.Load())], keywords=[]))
                    if f.id == "map":
                        out.append(r)
                    elif r:
                        out.append(x)
                return out
        if isinstance(f, ast.Name) and f.id in SAFE_BUILTINS and f.id not in self.module.assigns:
            if f.id == "isinstance":
                raise Unknown("isinstance")
            args = [self.ev(a) for a in e.args]
            try:
                return SAFE_BUILTINS[f.id](*args)
            except Exception as ex:
                raise Unknown(f"{f.id}: {ex}")
        if isinstance(f, ast.Attribute) and f.attr in SAFE_METHODS:
            base = self.ev(f.value)
            if isinstance(base, (str, bytes, list, tuple, dict, set, frozenset, int)):
                args = [self.ev(a) for a in e.args]
                try:
                    return getattr(base, f.attr)(*args)
                except (UnicodeDecodeError, UnicodeEncodeError, KeyError, IndexError) as ex:
                    raise Raised(type(ex).__name__, e)
                except ValueError as ex:
                    if f.attr in ("remove", "index"):
                        raise Raised("ValueError", e)
                    raise Unknown(f"{f.attr}: {ex}")
                except Exception as ex:
                    raise Unknown(f"{f.attr}: {ex}")
        # int.from_bytes(b, order, signed=...) / n.to_bytes(length, order, signed=...)
        if isinstance(f, ast.Attribute) and f.attr == "from_bytes" and unparse(f.value) == "int" and "int" not in self.module.assigns:
            try:
                return int.from_bytes(*[self.ev(a) for a in e.args], **{k.arg: self.ev(k.value) for k in e.keywords})
            except (TypeError, ValueError) as ex:
                raise Raised(type(ex).__name__, e)
        if isinstance(f, ast.Attribute) and f.attr == "to_bytes":
            base = self.ev(f.value)
            if isinstance(base, int):
                try:
                    return base.to_bytes(*[self.ev(a) for a in e.args], **{k.arg: self.ev(k.value) for k in e.keywords})
                except OverflowError:
                    raise Raised("OverflowError", e)
        # struct.Struct objects (module-level constants such as HEADER = Struct("!BBH"))
        if isinstance(f, ast.Name) and f.id == "Struct" or unparse(f) == "struct.Struct":
            import struct as _struct
            return _struct.Struct(*[self.ev(a) for a in e.args])
        if isinstance(f, ast.Attribute) and f.attr in ("pack", "unpack", "unpack_from", "iter_unpack"):
            import struct as _struct
            try:
                base = self.ev(f.value)
            except Unknown:
                base = None
            if isinstance(base, _struct.Struct):
                try:
                    r = getattr(base, f.attr)(*self._args(e))
                    return list(r) if f.attr == "iter_unpack" else r
                except _struct.error:
                    raise Raised("struct.error", e)
        # in-repo pure function: evaluate its body
        if isinstance(f, ast.Name):
            r = self.prog.resolve_name(self.module, f.id)
            if r and r[0] == "func":
                return self.call_function(r[1], self._args(e), {k.arg: self.ev(k.value) for k in e.keywords})
        # helper method of the class under evaluation (self.helper(...) / cls.helper(...)): evaluate its body with the same hook
        if isinstance(f, ast.Attribute) and isinstance(f.value, ast.Name) and f.value.id in ("self", "cls") and self.cls is not None and f.value.id in self.env:
            m = self.prog.find_method(self.cls, f.attr)
            if m is not None and not isinstance(m.node, ast.AsyncFunctionDef) or m is not None and getattr(self, "allow_async_helpers", True):
                args = [self.ev(a) for a in e.args]
                kwargs = {k.arg: self.ev(k.value) for k in e.keywords}
                bound = ([self.env[f.value.id]] + args) if m.kind in ("method", "property", "classmethod") else args
                return self.call_function(m, bound, kwargs)
        # the same for fragment evaluations that model the object by dotted environment keys ("self._queue": [...]) instead of a self object: the helper runs in the same environment
        if isinstance(f, ast.Attribute) and isinstance(f.value, ast.Name) and f.value.id == "self" and self.cls is not None and "self" not in self.env \
                and any(isinstance(k, str) and k.startswith("self.") for k in self.env):
            m = self.prog.find_method(self.cls, f.attr)
            if m is not None and m.kind == "method":
                params = [p.arg for p in m.pos_params][1:]
                vals = dict(zip(params, [self.ev(a) for a in e.args]))
                vals.update({k.arg: self.ev(k.value) for k in e.keywords})
                defaults = list(m.node.args.defaults)
                for p_, d_ in zip(params[len(params) - len(defaults):], defaults):
                    vals.setdefault(p_, self.ev(d_))
                saved = {k: self.env[k] for k in vals if k in self.env}
                self.env.update(vals)
                try:
                    Evaluator.exec_block(self, m.node.body)
                except Ret as r:
                    return r.value
                finally:
                    for k in vals:
                        self.env.pop(k, None)
                    self.env.update(saved)
                return None
        raise Unknown(f"call {unparse(e)[:60]}")

    def call_function(self, fi, args: List[Any], kwargs: Dict[str, Any] = None, depth: int = 0) -> Any:
        if depth > 6:
            raise Unknown("depth")
        sub = Evaluator(self.prog, fi.module, fi.cls, {}, self.call_hook)
        params = [p.arg for p in fi.pos_params]
        a = fi.node.args
        defaults = list(a.defaults)
        for p, d in zip(params[len(params) - len(defaults):], defaults):
            sub.env[p] = sub.ev(d)
        for p, v in zip(params, args):
            sub.env[p] = v
        for k, v in (kwargs or {}).items():
            sub.env[k] = v
        gen = is_generator(fi.node)
        try:
            sub.exec_block(fi.node.body)
        except Ret as r:
            return sub.env.get("__yields__", []) if gen else r.value
        return sub.env.get("__yields__", []) if gen else None

    # ------------------------------------------------------------ statements (pure fragment)
    def exec_block(self, body: List[ast.stmt]) -> None:
        for s in body:
            self.exec_stmt(s)

    def exec_stmt(self, s: ast.stmt) -> None:
        if isinstance(s, ast.Return):
            raise Ret(self.ev(s.value) if s.value is not None else None)
        if isinstance(s, ast.Expr):
            if isinstance(s.value, ast.Constant):
                return
            self.ev(s.value)
            return
        if isinstance(s, ast.Assign):
            v = self.ev(s.value)
            for t in s.targets:
                self._bind(t, v)
            return
        if isinstance(s, ast.AnnAssign):
            if s.value is not None:
                self._bind(s.target, self.ev(s.value))
            return
        if isinstance(s, ast.AugAssign):
            cur = self.ev(_load(s.target))
            v = self.ev(s.value)
            self._bind(s.target, _binop(s.op, cur, v))
            return
        if isinstance(s, ast.If):
            if self.ev(s.test):
                self.exec_block(s.body)
            else:
                self.exec_block(s.orelse)
            return
        if isinstance(s, ast.For):
            broke = False
            for item in self.ev(s.iter):
                self._bind(s.target, item)
                try:
                    self.exec_block(s.body)
                except _Break:
                    broke = True
                    break
                except _Continue:
                    continue
            if not broke and s.orelse:
                self.exec_block(s.orelse)
            return
        if isinstance(s, ast.While):
            n = 0
            broke = False
            while self.ev(s.test):
                n += 1
                if n > 10000:
                    # far beyond anything the enumerated domains need: reported as non-termination of the analysed loop
                    raise Raised("NonTermination (more than 10000 iterations)", s)
                try:
                    self.exec_block(s.body)
                except _Break:
                    broke = True
                    break
                except _Continue:
                    continue
            if not broke and s.orelse:
                self.exec_block(s.orelse)
            return
        if isinstance(s, ast.Break):
            raise _Break()
        if isinstance(s, ast.Continue):
            raise _Continue()
        if isinstance(s, ast.Raise):
            name = unparse(s.exc.func if isinstance(s.exc, ast.Call) else s.exc) if s.exc is not None else "reraise"
            raise Raised(name, s)
        if isinstance(s, ast.Assert):
            if not self.ev(s.test):
                raise Raised("AssertionError", s)
            return
        if isinstance(s, (ast.Nonlocal, ast.Global)):
            self.nonlocals = set(getattr(self, "nonlocals", ())) | set(s.names)   # writes to these names go to the enclosing call's environment as well
            return
        if isinstance(s, ast.Pass):
            return
        if isinstance(s, ast.Delete):
            for t in s.targets:
                if isinstance(t, ast.Subscript):
                    base = self.ev(t.value)
                    key = self.ev(t.slice)
                    try:
                        del base[key]
                    except KeyError:
                        raise Raised("KeyError", s)
                    except IndexError:
                        raise Raised("IndexError", s)
                    except TypeError:
                        raise Unknown("del on " + type(base).__name__)
                elif isinstance(t, ast.Name):
                    self.env.pop(t.id, None)
                elif isinstance(t, ast.Attribute):
                    base = self.ev(t.value)
                    try:
                        delattr(base, t.attr)
                    except AttributeError:
                        raise Raised("AttributeError", s)
                else:
                    raise Unknown("del target")
            return
        if isinstance(s, (ast.FunctionDef,)):
            self.env[s.name] = _Closure(s)
            return
        if isinstance(s, ast.Try):
            try:
                self.exec_block(s.body)
            except Raised as r:
                for h in s.handlers:
                    names = [unparse(x) for x in (h.type.elts if isinstance(h.type, ast.Tuple) else [h.type])] if h.type is not None else ["*"]
                    if "*" in names or r.name in names or any(n.split(".")[-1] == r.name.split(".")[-1] or n.split(".")[-1] in _EXC_PARENTS.get(r.name.split(".")[-1], ()) for n in names):
                        self.exec_block(h.body)
                        break
                else:
                    raise
            else:
                self.exec_block(s.orelse)
            finally:
                if s.finalbody:
                    self.exec_block(s.finalbody)
            return
        raise Unknown(f"statement {type(s).__name__}")


def is_generator(node: ast.AST) -> bool:
    stack = list(ast.iter_child_nodes(node))
    while stack:
        n = stack.pop()
        if isinstance(n, (ast.Yield, ast.YieldFrom)):
            return True
        if isinstance(n, (ast.FunctionDef, ast.AsyncFunctionDef, ast.Lambda, ast.ClassDef)):
            continue
        stack.extend(ast.iter_child_nodes(n))
    return False


class _Opaque:
    """Stand-in for a value the interpreter cannot build; any use other than passing it around is Unknown."""

    def __init__(self, text: str) -> None:
        self.text = text

    def __repr__(self) -> str:
        return f"<opaque {self.text}>"


class _Closure:
    def __init__(self, node: ast.FunctionDef) -> None:
        self.node = node


class _Break(Exception):
    pass


class _Continue(Exception):
    pass


def _plain(v: Any) -> bool:
    return isinstance(v, (int, float, str, bytes, bool)) or v is None


def _load(t: ast.AST) -> ast.AST:
    import copy
    n = copy.deepcopy(t)
    for x in ast.walk(n):
        if hasattr(x, "ctx"):
            x.ctx = ast.Load()
    return n


def _binop(op: ast.operator, a: Any, b: Any) -> Any:
    try:
        if isinstance(op, ast.Add):
            return a + b
        if isinstance(op, ast.Sub):
            return a - b
        if isinstance(op, ast.Mult):
            return a * b
        if isinstance(op, ast.FloorDiv):
            return a // b
        if isinstance(op, ast.Div):
            return a / b
        if isinstance(op, ast.Mod):
            return a % b
        if isinstance(op, ast.LShift):
            return a << b
        if isinstance(op, ast.RShift):
            return a >> b
        if isinstance(op, ast.BitOr):
            return a | b
        if isinstance(op, ast.BitAnd):
            return a & b
        if isinstance(op, ast.BitXor):
            return a ^ b
        if isinstance(op, ast.Pow):
            return a ** b
    except ZeroDivisionError:
        raise Raised("ZeroDivisionError", ast.Constant(value=None))
    except TypeError as ex:
        # arithmetic on None / mismatched operands is what the analysed code would raise too
        if a is None or b is None or isinstance(a, (int, float, str, bytes, list, tuple)) and isinstance(b, (int, float, str, bytes, list, tuple)):
            raise Raised("TypeError", ast.Constant(value=None))
        raise Unknown(str(ex))
    except ValueError:
        raise Raised("ValueError", ast.Constant(value=None))
    except Exception as ex:
        raise Unknown(str(ex))
    raise Unknown("binop")
