"""Findings, known-findings matching, evidence files, exit codes."""
from __future__ import annotations

import ast
import json
import os
import re
import time
from dataclasses import dataclass, field
from typing import Any, Dict, List, Optional

VERIF = os.path.dirname(os.path.dirname(os.path.abspath(__file__)))
# self-validation runs (engine/selftest.py) redirect their evidence to a scratch directory
EVIDENCE_DIR = os.environ.get("VERIF_EVIDENCE_DIR") or os.path.join(VERIF, "evidence")
KNOWN_FILE = os.path.join(VERIF, "known_findings.txt")


def norm(text: str) -> str:
    return re.sub(r"\s+", " ", text).strip()


def shape(text: str) -> str:
    """Source text with local variable names blanked: `gaps[-1]` and `gap_blocks[-1]` have the same shape `_[-1]`; attribute names, `self`, module
    names followed by a dot, literals and operators are kept.  Used to key exemptions so that a renamed local does not void them."""
    import ast
    try:
        tree = ast.parse(text.strip(), mode="eval")
    except SyntaxError:
        return norm(text)
    attr_bases = {id(n.value) for n in ast.walk(tree) if isinstance(n, ast.Attribute)}
    call_funcs = {id(n.func) for n in ast.walk(tree) if isinstance(n, ast.Call)}
    for n in ast.walk(tree):
        if isinstance(n, ast.Name) and n.id != "self" and id(n) not in call_funcs and not (id(n) in attr_bases and n.id in ("math", "struct", "time", "os")):
            n.id = "_"
    return norm(ast.unparse(tree))


@dataclass
class Finding:
    property: str
    rule: str
    function: str  # qualname of the function that contains the construct ("-" for module level)
    construct: str  # normalised source text of the offending construct
    message: str
    file: str = ""
    line: int = 0
    witness: List[str] = field(default_factory=list)  # call chain / path, entry first

    @property
    def key(self):
        return (self.rule, self.function, norm(self.construct))

    def to_json(self) -> Dict[str, Any]:
        return {
            "property": self.property,
            "rule": self.rule,
            "function": self.function,
            "construct": norm(self.construct),
            "message": self.message,
            "file": self.file,
            "line": self.line,
            "witness": self.witness,
        }

    def text(self) -> str:
        w = f" via {' -> '.join(self.witness)}" if self.witness else ""
        return f"[{self.rule}] {self.file}:{self.line} in {self.function}: `{norm(self.construct)}` — {self.message}{w}"


@dataclass
class KnownEntry:
    kind: str  # known | fixed
    property: str
    rule: str = ""
    function: str = ""
    construct: str = ""
    note: str = ""
    raw: str = ""


def load_known() -> List[KnownEntry]:
    out: List[KnownEntry] = []
    if not os.path.exists(KNOWN_FILE):
        return out
    with open(KNOWN_FILE, encoding="utf8") as fh:
        for line in fh:
            line = line.rstrip("\n")
            s = line.strip()
            if not s or s.startswith("#"):
                continue
            if s.startswith("known:"):
                body, _, note = s[len("known:"):].partition("::")
                m = re.match(r"\s*property=(\S+)\s+rule=(\S+)\s+function=(\S+)\s+construct=(.*)$", body.strip())
                if not m:
                    raise ValueError(f"malformed known-findings line: {line}")
                out.append(KnownEntry("known", m.group(1), m.group(2), m.group(3), norm(m.group(4)), note.strip(), s))
            elif s.startswith("fixed:"):
                m = re.match(r"fixed:\s*property=(\S+)\s+(.*)$", s)
                if not m:
                    raise ValueError(f"malformed known-findings line: {line}")
                out.append(KnownEntry("fixed", m.group(1), note=m.group(2), raw=s))
            else:
                raise ValueError(f"malformed known-findings line: {line}")
    return out


class Report:
    """Collects what one check run analysed and found, writes evidence, decides exit code."""

    def __init__(self, prop: str, tier: str, seed: int) -> None:
        self.prop = prop
        self.tier = tier
        self.seed = seed
        self.t0 = time.time()
        self.findings: List[Finding] = []
        self.obligations = 0
        self.discharged = 0
        self.nontrivial: set = set()
        self.samples: List[Any] = []
        self.analysed: Dict[str, Any] = {}
        self.rules: Dict[str, Dict[str, Any]] = {}
        self.assumptions: List[str] = []
        self.explanation = ""
        self.notes: List[str] = []
        self.selftest: Dict[str, Any] = {}

    # -- recording
    def rule(self, name: str, description: str, min_instances: int = 0) -> Dict[str, Any]:
        r = self.rules.setdefault(name, {"description": description, "instances": 0, "discharged": 0,
                                         "findings": 0, "min_instances": min_instances})
        return r

    def ok(self, rule: str, what: str, nontrivial: bool = True, sample: Any = None) -> None:
        """One obligation examined and discharged."""
        self.obligations += 1
        self.discharged += 1
        r = self.rules.setdefault(rule, {"description": "", "instances": 0, "discharged": 0, "findings": 0, "min_instances": 0})
        r["instances"] += 1
        r["discharged"] += 1
        if nontrivial:
            self.nontrivial.add((rule, norm(what)))
        if sample is not None and len(self.samples) < 12 and sum(1 for s in self.samples if isinstance(s, dict) and s.get("rule") == rule) < 2:
            self.samples.append({"rule": rule, "obligation": norm(what), "discharged_by": sample})

    def fail(self, f: Finding) -> None:
        self.obligations += 1
        r = self.rules.setdefault(f.rule, {"description": "", "instances": 0, "discharged": 0, "findings": 0, "min_instances": 0})
        r["instances"] += 1
        r["findings"] += 1
        self.nontrivial.add((f.rule, norm(f.construct)))
        for g in self.findings:
            if g.key == f.key:
                return
        self.findings.append(f)

    # -- finishing
    def finish(self) -> int:
        known = [k for k in load_known() if k.kind == "known" and k.property == self.prop]
        violations: List[Finding] = []
        known_hits: List[Finding] = []
        for f in self.findings:
            hit = None
            for k in known:
                if (k.rule, k.function, k.construct) == f.key:
                    hit = k
                    break
            if hit is not None:
                known_hits.append(f)
                print(f"KNOWN-FINDING: property={self.prop} {f.text()} :: {hit.note}")
            else:
                violations.append(f)
        # vacuity guard
        for name, r in self.rules.items():
            if r["instances"] < r.get("min_instances", 0):
                raise_analysis(f"rule {name} matched {r['instances']} instances, fewer than the {r['min_instances']} confirmed by hand")
        replay = None
        stale = os.path.join(EVIDENCE_DIR, f"{self.prop}.replay.json")
        if not violations and os.path.exists(stale):
            os.remove(stale)
        if violations:
            os.makedirs(EVIDENCE_DIR, exist_ok=True)
            replay = os.path.join(EVIDENCE_DIR, f"{self.prop}.replay.json")
            with open(replay, "w", encoding="utf8") as fh:
                json.dump({"property": self.prop, "violations": [v.to_json() for v in violations]}, fh, indent=1)
        self._write_evidence(violations, known_hits)
        for name, r in sorted(self.rules.items()):
            print(f"  rule {name}: {r['instances']} obligations, {r['discharged']} discharged, {r['findings']} findings")
        if violations:
            for v in violations:
                print("FINDING " + v.text())
            print(f"VIOLATION property={self.prop} replay={replay}")
            return 1
        print(f"OK property={self.prop} tier={self.tier} obligations={self.obligations} discharged={self.discharged} known={len(known_hits)}")
        return 0

    def _write_evidence(self, violations: List[Finding], known_hits: List[Finding]) -> None:
        os.makedirs(EVIDENCE_DIR, exist_ok=True)
        samples = list(self.samples)
        if not samples:
            samples = [{"note": "no discharged obligation recorded"}]
        cov = {
            "explanation": self.explanation,
            "obligations": self.obligations,
            "discharged": self.discharged,
            "evaluations": max(self.obligations, 1),
            "distinct_nontrivial": len(self.nontrivial),
            "rule": "one evaluation = one rule obligation (a call site, statement, table row or path class) examined on the "
                    "current /repo source; non-trivial = needed at least one resolution/fact/evaluation step; distinct by (rule, normalised construct)",
            "samples": samples,
            "rules": self.rules,
            "analysed": self.analysed,
            "findings": [v.to_json() for v in violations],
            "known_findings": [v.to_json() for v in known_hits],
            "notes": self.notes,
        }
        if self.selftest:
            cov["self_validation"] = self.selftest
        ev = {
            "property_id": self.prop,
            "tier": self.tier,
            "seed": self.seed,
            "level": "other",
            "coverage": cov,
            "assumptions": self.assumptions,
            "wall_s": round(time.time() - self.t0, 3),
            "violations": len(violations),
        }
        path = os.path.join(EVIDENCE_DIR, f"{self.prop}.json")
        tmp = path + ".tmp"
        with open(tmp, "w", encoding="utf8") as fh:
            json.dump(ev, fh, indent=1, sort_keys=False, default=str)
        os.replace(tmp, path)


def raise_analysis(msg: str) -> None:
    from .index import AnalysisError

    raise AnalysisError(msg)


def mk_finding(prog, prop: str, rule: str, fi, node: Optional[ast.AST], message: str, construct: str = None,
               witness: List[str] = None) -> Finding:
    from .index import unparse

    if construct is None:
        construct = unparse(node) if node is not None else ""
    if len(construct) > 300:
        construct = construct[:300]
    return Finding(
        property=prop,
        rule=rule,
        function=fi.qualname if fi is not None else "-",
        construct=construct,
        message=message,
        file=fi.module.relpath if fi is not None else "",
        line=getattr(node, "lineno", 0) or (fi.lineno if fi is not None else 0),
        witness=witness or [],
    )
