"""Abstract values and abstract states for the facts domain."""
from __future__ import annotations

from typing import Any, FrozenSet, List, Optional, Tuple

from .lin import Facts, Lin, facts_equal, join_facts, widen_facts

NOCONST = object()
INF = None  # unbounded end of an interval


class AVal:
    """Abstract value of an expression."""

    __slots__ = ("lin", "lo", "hi", "length", "kind", "elems", "const", "taint", "maybe_none", "src", "elem", "fields", "ubound")

    def __init__(self, lin: Optional[Lin] = None, lo: Optional[int] = None, hi: Optional[int] = None,
                 length: Optional[Lin] = None, kind: Optional[str] = None, elems: Optional[List["AVal"]] = None,
                 const: Any = NOCONST, taint: bool = False, maybe_none: bool = False, src: str = "",
                 elem: Optional["AVal"] = None) -> None:
        self.lin = lin
        self.lo = lo
        self.hi = hi
        self.length = length
        self.kind = kind
        self.elems = elems
        self.const = const
        self.taint = taint
        self.maybe_none = maybe_none
        self.src = src  # where an interval comes from (for messages)
        self.elem = elem  # abstract element of a homogeneous container
        self.fields = None  # dataclass constructor results: field name -> AVal
        self.ubound = None  # Lin: value <= ubound (relational upper bound, e.g. x % n <= n - 1)

    def __repr__(self) -> str:
        bits = []
        if self.kind:
            bits.append(self.kind)
        if self.const is not NOCONST:
            bits.append(f"const={self.const!r}")
        if self.lin is not None:
            bits.append(f"lin={self.lin}")
        if self.lo is not None or self.hi is not None:
            bits.append(f"[{self.lo},{self.hi}]")
        if self.length is not None:
            bits.append(f"len={self.length}")
        if self.taint:
            bits.append("wire")
        if self.maybe_none:
            bits.append("maybe-none")
        return "AVal(" + " ".join(bits) + ")"

    @staticmethod
    def of_const(v: Any) -> "AVal":
        if isinstance(v, bool):
            return AVal(lin=Lin.const(int(v)), lo=int(v), hi=int(v), kind="bool", const=v)
        if isinstance(v, int):
            return AVal(lin=Lin.const(v), lo=v, hi=v, kind="int", const=v)
        if isinstance(v, (bytes, bytearray)):
            return AVal(length=Lin.const(len(v)), kind="bytes", const=v)
        if isinstance(v, str):
            return AVal(length=Lin.const(len(v)), kind="str", const=v)
        if isinstance(v, float):
            return AVal(kind="float", const=v)
        if v is None:
            return AVal(kind="none", const=None)
        if isinstance(v, (tuple, list)):
            return AVal(length=Lin.const(len(v)), kind="tuple" if isinstance(v, tuple) else "list", const=v,
                        elems=[AVal.of_const(x) for x in v])
        if isinstance(v, (dict, set, frozenset, range)):
            return AVal(length=Lin.const(len(v)), kind=type(v).__name__, const=v)
        return AVal(const=v)

    def with_taint(self, t: bool) -> "AVal":
        if t and not self.taint:
            c = self.copy()
            c.taint = True
            return c
        return self

    def copy(self) -> "AVal":
        c = AVal(self.lin, self.lo, self.hi, self.length, self.kind, self.elems, self.const, self.taint,
                 self.maybe_none, self.src, self.elem)
        c.fields = self.fields
        c.ubound = self.ubound
        return c


def iv_add(a: Tuple, b: Tuple) -> Tuple:
    lo = None if a[0] is None or b[0] is None else a[0] + b[0]
    hi = None if a[1] is None or b[1] is None else a[1] + b[1]
    return lo, hi


def iv_neg(a: Tuple) -> Tuple:
    return (None if a[1] is None else -a[1], None if a[0] is None else -a[0])


def iv_sub(a: Tuple, b: Tuple) -> Tuple:
    return iv_add(a, iv_neg(b))


def iv_mul(a: Tuple, b: Tuple) -> Tuple:
    if None in a or None in b:
        # sign-aware partial results
        if a[0] is not None and b[0] is not None and a[0] >= 0 and b[0] >= 0:
            return (a[0] * b[0], None if a[1] is None or b[1] is None else a[1] * b[1])
        return (None, None)
    ps = [a[0] * b[0], a[0] * b[1], a[1] * b[0], a[1] * b[1]]
    return min(ps), max(ps)


def iv_join(a: Tuple, b: Tuple) -> Tuple:
    lo = None if a[0] is None or b[0] is None else min(a[0], b[0])
    hi = None if a[1] is None or b[1] is None else max(a[1], b[1])
    return lo, hi


def iv_within(a: Tuple, lo: int, hi: int) -> bool:
    return a[0] is not None and a[1] is not None and a[0] >= lo and a[1] <= hi


class St:
    """Abstract state: linear facts + must-defined locals + may-tainted locals."""

    __slots__ = ("f", "defd", "taint")

    def __init__(self, f: Facts, defd: FrozenSet[str] = frozenset(), taint: FrozenSet[str] = frozenset()) -> None:
        self.f = f
        self.defd = defd
        self.taint = taint

    def with_f(self, f: Optional[Facts]) -> Optional["St"]:
        if f is None:
            return None
        if f is self.f:
            return self
        return St(f, self.defd, self.taint)

    def define(self, name: str, tainted: bool) -> "St":
        taint = (self.taint | {name}) if tainted else (self.taint - {name})
        return St(self.f, self.defd | {name}, taint)

    def __repr__(self) -> str:
        return f"St({self.f}, taint={sorted(self.taint)})"


def st_join(a: Optional[St], b: Optional[St]) -> Optional[St]:
    if a is None:
        return b
    if b is None:
        return a
    if a is b:
        return a
    return St(join_facts(a.f, b.f), a.defd & b.defd, a.taint | b.taint)


def st_equal(a: Optional[St], b: Optional[St]) -> bool:
    if a is None or b is None:
        return a is b
    return a.defd == b.defd and a.taint == b.taint and facts_equal(a.f, b.f)


def st_widen(old: Optional[St], new: Optional[St]) -> Optional[St]:
    if old is None or new is None:
        return new
    return St(widen_facts(old.f, new.f), new.defd, new.taint)
