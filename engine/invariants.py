"""Object (class) invariants over ``self`` fields, inferred and checked inductively.

Candidates are the facts that hold at the exits of ``__init__`` (joined over the constant
constructor call sites found in the program), restricted to fields that no code outside
the class writes; they are kept only if every other method, analysed with the candidates
assumed at entry, re-establishes them at each normal exit (one fixpoint, candidates only
ever dropped or weakened).  Used to discharge ring-index / divisor / sqrt obligations in
JitterBuffer and the rate-control classes.  Only for classes without coroutine methods.
"""
from __future__ import annotations

import ast
from typing import Any, Dict, List, Optional, Set, Tuple

from .aval import AVal, NOCONST
from .index import ClassInfo, FuncInfo, walk_no_nested
from .lin import Facts, Lin, atom_deps, join_facts, pred_atoms
from .absint_stmt import MUTATORS


class Invariants:
    def __init__(self, ai) -> None:
        self.ai = ai
        self.prog = ai.prog
        self.cache: Dict[str, Optional[Facts]] = {}
        self.in_progress: Set[str] = set()
        self.report: Dict[str, Dict[str, Any]] = {}
        self.current: Dict[str, Facts] = {}  # candidates assumed while a class is being inferred

    # ------------------------------------------------------------ helpers
    def _own_functions(self, ci: ClassInfo) -> Set[str]:
        fam = [ci] + self.prog.subclasses(ci) + self.prog.mro(ci)
        out = set()
        for c in fam:
            for m in c.methods.values():
                out.add(m.qualname)
        return out

    def _written_outside(self, ci: ClassInfo) -> Set[str]:
        own = self._own_functions(ci)
        out: Set[str] = set()
        for fi in self.prog.functions.values():
            top = fi
            while top.parent is not None:
                top = top.parent
            if top.qualname in own:
                continue
            in_other_class = top.cls is not None

            def foreign(attr_node: ast.Attribute) -> bool:
                # `self.x = ...` inside a method of an unrelated class cannot be a write to our object
                return not (in_other_class and isinstance(attr_node.value, ast.Name) and attr_node.value.id == "self")

            for n in walk_no_nested(fi.node):
                if isinstance(n, ast.Attribute) and isinstance(n.ctx, (ast.Store, ast.Del)):
                    if foreign(n):
                        out.add(n.attr)
                elif isinstance(n, ast.Subscript) and isinstance(n.ctx, (ast.Store, ast.Del)):
                    b = n.value
                    while isinstance(b, ast.Subscript):
                        b = b.value
                    if isinstance(b, ast.Attribute) and foreign(b):
                        out.add(b.attr)
                elif isinstance(n, ast.Call) and isinstance(n.func, ast.Attribute) and n.func.attr in MUTATORS:
                    b = n.func.value
                    while isinstance(b, ast.Subscript):
                        b = b.value
                    if isinstance(b, ast.Attribute) and foreign(b):
                        out.add(b.attr)
        return out

    def _self_only(self, atoms: List[str], banned: Set[str]) -> bool:
        for a in atoms:
            inner = a[4:-1] if a.startswith("len(") and a.endswith(")") else a
            if not inner.startswith("self."):
                return False
            names, attrs = atom_deps(a)
            if names - {"self"}:
                return False
            if attrs & banned:
                return False
        return True

    # ------------------------------------------------------------ main
    def for_class(self, ci: ClassInfo) -> Optional[Facts]:
        q = ci.qualname
        if q in self.cache:
            return self.cache[q]
        if q in self.in_progress:
            return self.current.get(q)
        self.in_progress.add(q)
        try:
            inv = self._infer(ci)
        finally:
            self.in_progress.discard(q)
        self.cache[q] = inv
        return inv

    def _infer(self, ci: ClassInfo) -> Optional[Facts]:
        ai = self.ai
        init = ci.methods.get("__init__")
        if init is None:
            return None
        methods = [m for m in ci.methods.values() if m.name != "__init__" and m.kind in ("method", "property")]
        if any(m.is_async for m in ci.methods.values()):
            return None
        for m in ci.methods.values():
            for n in walk_no_nested(m.node):
                if isinstance(n, (ast.Yield, ast.YieldFrom, ast.Await)):
                    return None
        banned = self._written_outside(ci)
        saved = (ai.memo, ai.__dict__.get("_quiet", 0), ai.__dict__.get("_inv_mode", 0), ai.obs, ai.loop_records, ai.chain,
                 ai.ctx_stack, ai.in_progress, ai.__dict__.get("_name_vals"), ai.__dict__.get("_pvals"))
        ai.memo = {}
        ai._quiet = 1
        ai._inv_mode = 1
        ai.obs = {}
        ai.loop_records = {}
        ai.chain = []
        ai.ctx_stack = []
        ai.in_progress = []
        try:
            contexts = self._ctor_contexts(ci, init)
            ex: Optional[Facts] = None
            for pvals, facts in contexts:
                summ = ai.analyze(init, ("inv-init", tuple(sorted((k, repr(v.const)) for k, v in pvals.items()))), facts, set(), pvals)
                if summ.exit is None:
                    continue
                ex = summ.exit if ex is None else join_facts(ex, summ.exit)
            if ex is None:
                return None
            cand = self._candidates(ex, banned)
            self.current[ci.qualname] = cand
            rounds = 0
            while rounds < 6:
                rounds += 1
                changed = False
                for m in methods:
                    entry = cand
                    ai.memo = {}
                    summ = ai.analyze(m, ("inv", rounds, m.qualname), entry, set(), {})
                    if summ.exit is None:
                        continue
                    new = self._keep(cand, summ.exit)
                    if new != cand:
                        cand = new
                        self.current[ci.qualname] = cand
                        changed = True
                if not changed:
                    break
            self.report[ci.qualname] = {"invariant": repr(cand), "rounds": rounds, "constructor_contexts": len(contexts),
                                        "fields_written_outside_class": sorted(banned & self._own_attrs(ci))}
            if not cand.ge and not cand.eq and not cand.preds:
                return None
            return cand
        finally:
            self.current.pop(ci.qualname, None)
            (ai.memo, ai._quiet, ai._inv_mode, ai.obs, ai.loop_records, ai.chain, ai.ctx_stack, ai.in_progress, nv, pv) = saved
            if nv is not None:
                ai._name_vals = nv
            ai._pvals = pv

    def _own_attrs(self, ci: ClassInfo) -> Set[str]:
        out = set()
        for m in ci.methods.values():
            for n in walk_no_nested(m.node):
                if isinstance(n, ast.Attribute) and isinstance(n.value, ast.Name) and n.value.id == "self":
                    out.add(n.attr)
        return out

    def _ctor_contexts(self, ci: ClassInfo, init: FuncInfo) -> List[Tuple[Dict[str, AVal], Facts]]:
        out: List[Tuple[Dict[str, AVal], Facts]] = []
        params = [p.arg for p in init.pos_params][1:]
        for cs in self.ai.cg.callers_of(init):
            call = cs.node
            if not isinstance(call, ast.Call):
                continue
            if isinstance(call.func, ast.Attribute) and call.func.attr == "__init__":
                continue  # super().__init__()
            pvals: Dict[str, AVal] = {}
            facts = Facts()
            ok = True
            bound: Dict[str, ast.expr] = {}
            for i, a in enumerate(call.args):
                if isinstance(a, ast.Starred) or i >= len(params):
                    ok = False
                    break
                bound[params[i]] = a
            for k in call.keywords:
                if k.arg is None:
                    ok = False
                    break
                bound[k.arg] = k.value
            if not ok:
                continue
            for pname, node in bound.items():
                c = self.prog.try_const(node, cs.caller.module, cs.caller.cls, default=NOCONST)
                if c is not NOCONST and isinstance(c, (int, float, bool, str, bytes, type(None))):
                    pvals[pname] = AVal.of_const(c)
                    if isinstance(c, int):
                        f2 = facts.add_eq(Lin.atom(pname).shift(-int(c)))
                        facts = f2 if f2 is not None else facts
            # constant defaults
            a = init.node.args
            pos = a.posonlyargs + a.args
            for p, d in zip(pos[len(pos) - len(a.defaults):], a.defaults):
                if p.arg not in bound:
                    c = self.prog.try_const(d, init.module, init.cls, default=NOCONST)
                    if c is not NOCONST and isinstance(c, (int, float, bool, str, bytes, type(None))):
                        pvals[p.arg] = AVal.of_const(c)
                        if isinstance(c, int):
                            f2 = facts.add_eq(Lin.atom(p.arg).shift(-int(c)))
                            facts = f2 if f2 is not None else facts
            out.append((pvals, facts))
        if not out:
            out.append(({}, Facts()))
        return out

    def _candidates(self, ex: Facts, banned: Set[str]) -> Facts:
        ge: Set[Lin] = set()
        eq: Set[Lin] = set()
        preds: Set[tuple] = set()
        for E in ex.eq:
            if self._self_only(E.atoms(), banned):
                eq.add(E)
        for G in ex.ge:
            if self._self_only(G.atoms(), banned):
                ge.add(G)
        for p in ex.preds:
            if p[0] in ("flo", "fhi", "notnone") and isinstance(p[1], str) and self._self_only([p[1]], banned):
                preds.add(p)
        base = Facts(ge, eq, preds)
        # weakenings of constant equalities: bounds, and strict orderings between constant-valued int fields
        consts: Dict[str, int] = {}
        for E in eq:
            if len(E.t) == 1 and abs(E.t[0][1]) == 1:
                a, k = E.t[0]
                consts[a] = -E.c * k
        for a, c in consts.items():
            ge.add(Lin.atom(a).shift(-c))
            ge.add((-Lin.atom(a)).shift(c))
            if c != 0:
                ge.add(Lin.atom(a) if c > 0 else -Lin.atom(a))
        for a, ca in consts.items():
            for b, cb in consts.items():
                if a != b and ca < cb and not a.startswith("len(") :
                    ge.add(Lin.atom(b) - Lin.atom(a) - Lin.const(1))
        # int fields known non-negative at construction
        for G in list(ex.ge):
            if len(G.t) == 1 and self._self_only(G.atoms(), banned) and G.t[0][1] == 1 and G.c <= 0:
                ge.add(Lin.atom(G.t[0][0]))
        out = Facts(ge, eq, preds)
        # only keep what really holds at construction
        ge2 = {G for G in out.ge if base.entails_ge(G)}
        return Facts(ge2, out.eq, out.preds)

    def _keep(self, cand: Facts, exit_facts: Facts) -> Facts:
        ge = {G for G in cand.ge if G in exit_facts.ge or exit_facts.entails_ge(G)}
        eq = {E for E in cand.eq if E in exit_facts.eq or exit_facts.entails_eq(E)}
        preds: Set[tuple] = set()
        for p in cand.preds:
            if p in exit_facts.preds:
                preds.add(p)
            elif p[0] == "flo":
                best = [q[2] for q in exit_facts.preds if q[0] == "flo" and q[1] == p[1]]
                if best:
                    preds.add(("flo", p[1], min(p[2], max(best))))
            elif p[0] == "fhi":
                best = [q[2] for q in exit_facts.preds if q[0] == "fhi" and q[1] == p[1]]
                if best:
                    preds.add(("fhi", p[1], max(p[2], min(best))))
        return Facts(ge, eq, preds)
