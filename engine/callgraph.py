"""Call resolution and whole-program call graph over the index + light types."""
from __future__ import annotations

import ast
from dataclasses import dataclass, field
from typing import Dict, Iterator, List, Optional, Set, Tuple

from .index import ClassInfo, FuncInfo, Program, walk_no_nested
from .types import Types, members

PROTOCOL_BASES = ("Protocol",)


@dataclass
class CallSite:
    caller: FuncInfo
    node: ast.AST  # Call | Attribute (property read) | Name (callback reference)
    kind: str  # call | property | callback | dunder
    targets: List[FuncInfo] = field(default_factory=list)
    ext: Optional[str] = None  # dotted external name if not in repo
    resolved: bool = False
    by_name: bool = False


class CallGraph:
    def __init__(self, prog: Program, types: Types = None) -> None:
        self.prog = prog
        self.types = types or Types(prog)
        self._sites: Dict[str, List[CallSite]] = {}
        self._callers: Optional[Dict[str, List[CallSite]]] = None
        self._methods_by_name: Dict[str, List[FuncInfo]] = {}
        for fi in prog.functions.values():
            if fi.cls is not None and fi.parent is None:
                self._methods_by_name.setdefault(fi.name, []).append(fi)

    # ------------------------------------------------------------ helpers
    def is_protocol(self, ci: ClassInfo) -> bool:
        for b in ci.base_exprs:
            n = b.id if isinstance(b, ast.Name) else (b.attr if isinstance(b, ast.Attribute) else "")
            if n in PROTOCOL_BASES:
                return True
        return False

    def virtual_targets(self, ci: ClassInfo, name: str) -> List[FuncInfo]:
        """Method `name` on a value of static type ci: MRO hit plus overrides in subclasses;
        for Protocol classes every in-repo class defining the method."""
        out: List[FuncInfo] = []
        if self.is_protocol(ci):
            for fi in self._methods_by_name.get(name, []):
                if not self.is_protocol(fi.cls) and fi not in out:
                    out.append(fi)
            return out
        m = self.prog.find_method(ci, name)
        if m is not None:
            out.append(m)
        for sub in self.prog.subclasses(ci):
            if name in sub.methods and sub.methods[name] not in out:
                out.append(sub.methods[name])
        return out

    def ctor_targets(self, ci: ClassInfo) -> List[FuncInfo]:
        out = []
        init = self.prog.find_method(ci, "__init__")
        if init is not None:
            out.append(init)
        post = self.prog.find_method(ci, "__post_init__")
        if post is not None:
            out.append(post)
        return out

    # ------------------------------------------------------------ resolution
    def resolve_call(self, call: ast.Call, fi: FuncInfo) -> CallSite:
        cs = CallSite(caller=fi, node=call, kind="call")
        f = call.func
        t = self.types
        env = t.env(fi)
        if isinstance(f, ast.Name):
            n = f.id
            # nested function of this function or an enclosing one
            p: Optional[FuncInfo] = fi
            while p is not None:
                if n in p.children:
                    cs.targets = [p.children[n]]
                    cs.resolved = True
                    return cs
                p = p.parent
            if n in env and env[n] is not None:
                for x in members(env[n]):
                    if x[0] in ("func", "bound"):
                        cs.targets.append(x[1])
                    elif x[0] == "cls":
                        cs.targets.extend(self.ctor_targets(x[1]))
                        cs.resolved = True
                if cs.targets:
                    cs.resolved = True
                    return cs
            r = self.prog.resolve_name(fi.module, n)
            if r is not None:
                if r[0] == "func":
                    cs.targets = [r[1]]
                    cs.resolved = True
                elif r[0] == "class":
                    cs.targets = self.ctor_targets(r[1])
                    cs.resolved = True
                elif r[0] == "ext":
                    cs.ext = r[1]
                    cs.resolved = True
                elif r[0] == "const":
                    gt = t.global_type(r[1][0], r[1][1])
                    for x in members(gt):
                        if x[0] in ("func", "bound"):
                            cs.targets.append(x[1])
                            cs.resolved = True
                        elif x[0] == "cls":
                            cs.targets.extend(self.ctor_targets(x[1]))
                            cs.resolved = True
                return cs
            # builtins with dunder dispatch
            if n in ("bytes", "str", "repr", "len", "iter", "next", "bool", "int", "float", "hash") and len(call.args) == 1:
                dunder = {"bytes": "__bytes__", "str": "__str__", "repr": "__repr__", "len": "__len__",
                          "iter": "__iter__", "next": "__next__", "bool": "__bool__", "int": "__int__",
                          "float": "__float__", "hash": "__hash__"}[n]
                at = t.type_of(call.args[0], fi, env)
                for x in members(at):
                    if x[0] == "inst":
                        tg = self.virtual_targets(x[1], dunder)
                        if not tg and dunder == "__str__":
                            tg = self.virtual_targets(x[1], "__repr__")
                        cs.targets.extend(z for z in tg if z not in cs.targets)
                cs.kind = "dunder" if cs.targets else "call"
                cs.ext = None if cs.targets else f"builtins.{n}"
                cs.resolved = True
                return cs
            cs.ext = f"builtins.{n}"
            cs.resolved = True
            return cs
        if isinstance(f, ast.Attribute):
            vt = t.type_of(f.value, fi, env)
            ms = members(vt)
            for x in ms:
                if x[0] == "inst":
                    tg = self.virtual_targets(x[1], f.attr)
                    if tg:
                        for z in tg:
                            if z.kind == "property":
                                continue
                            if z not in cs.targets:
                                cs.targets.append(z)
                        cs.resolved = True
                    else:
                        ft = t.field_type(x[1], f.attr, fi.cls)
                        for y in members(ft):
                            if y[0] in ("func", "bound"):
                                cs.targets.append(y[1])
                                cs.resolved = True
                        # inherited from an external base (e.g. AsyncIOEventEmitter.emit)
                        if not cs.resolved and self._has_ext_base(x[1]):
                            cs.ext = f"<{x[1].name} external base>.{f.attr}"
                            cs.resolved = True
                elif x[0] == "cls":
                    tg = self.virtual_targets(x[1], f.attr)
                    if tg:
                        cs.targets.extend(z for z in tg if z not in cs.targets)
                        cs.resolved = True
                    else:
                        inner = None
                        for c in self.prog.mro(x[1]):
                            if f.attr in c.inner:
                                inner = c.inner[f.attr]
                        if inner is not None:
                            cs.targets.extend(self.ctor_targets(inner))
                            cs.resolved = True
                elif x[0] == "module":
                    r = self.prog.resolve_name(x[1], f.attr)
                    if r and r[0] == "func":
                        cs.targets.append(r[1])
                        cs.resolved = True
                    elif r and r[0] == "class":
                        cs.targets.extend(self.ctor_targets(r[1]))
                        cs.resolved = True
                    elif r and r[0] == "ext":
                        cs.ext = r[1]
                        cs.resolved = True
                elif x[0] == "ext":
                    cs.ext = f"{x[1]}.{f.attr}"
                    cs.resolved = True
                elif x[0] in ("bytes", "str", "int", "float", "list", "dict", "set", "deque", "tuple", "bool"):
                    cs.ext = f"builtins.{x[0]}.{f.attr}"
                    cs.resolved = True
                elif x[0] in ("func", "bound"):
                    cs.ext = f"function.{f.attr}"
                    cs.resolved = True
            if not cs.resolved:
                # by-name fallback: unique method name in the repo
                cands = [m for m in self._methods_by_name.get(f.attr, []) if not self.is_protocol(m.cls)]
                if 1 <= len(cands) <= 3 and not f.attr.startswith("__") and f.attr not in COMMON_NAMES:
                    cs.targets = cands
                    cs.resolved = True
                    cs.by_name = True
            return cs
        # call of a call result, subscript etc.
        ft = t.type_of(f, fi, env)
        for x in members(ft):
            if x[0] in ("func", "bound"):
                cs.targets.append(x[1])
                cs.resolved = True
            elif x[0] == "cls":
                cs.targets.extend(self.ctor_targets(x[1]))
                cs.resolved = True
        return cs

    def _has_ext_base(self, ci: ClassInfo) -> bool:
        for c in self.prog.mro(ci):
            for b in c.base_exprs:
                if self.prog.resolve_class_expr(c.module, b) is None:
                    n = b.id if isinstance(b, ast.Name) else (b.attr if isinstance(b, ast.Attribute) else "")
                    if n not in ("object", "Protocol"):
                        return True
        return False

    # ------------------------------------------------------------ per function sites
    def sites(self, fi: FuncInfo) -> List[CallSite]:
        if fi.qualname in self._sites:
            return self._sites[fi.qualname]
        out: List[CallSite] = []
        self._sites[fi.qualname] = out
        t = self.types
        env = t.env(fi)
        call_funcs: Set[int] = set()
        for n in walk_no_nested(fi.node):
            if isinstance(n, ast.Call):
                call_funcs.add(id(n.func))
        for n in walk_no_nested(fi.node):
            if isinstance(n, ast.Call):
                out.append(self.resolve_call(n, fi))
                # callbacks passed by reference
                for a in list(n.args) + [k.value for k in n.keywords]:
                    tg = self._callable_ref(a, fi, env)
                    if tg:
                        out.append(CallSite(caller=fi, node=a, kind="callback", targets=tg, resolved=True))
            elif isinstance(n, ast.Attribute) and isinstance(n.ctx, ast.Load) and id(n) not in call_funcs:
                vt = t.type_of(n.value, fi, env)
                tg: List[FuncInfo] = []
                for x in members(vt):
                    if x[0] == "inst":
                        for z in self.virtual_targets(x[1], n.attr):
                            if z.kind == "property" and z not in tg:
                                tg.append(z)
                if tg:
                    out.append(CallSite(caller=fi, node=n, kind="property", targets=tg, resolved=True))
            elif isinstance(n, ast.Attribute) and isinstance(n.ctx, ast.Load) and id(n) in call_funcs:
                # the *value* part may itself be a property read: handled when walking n.value
                pass
            elif isinstance(n, ast.JoinedStr):
                for v in n.values:
                    if isinstance(v, ast.FormattedValue):
                        at = t.type_of(v.value, fi, env)
                        tg = []
                        for x in members(at):
                            if x[0] == "inst":
                                for dn in ("__format__", "__str__", "__repr__"):
                                    z = self.virtual_targets(x[1], dn)
                                    if z:
                                        tg.extend(q for q in z if q not in tg)
                                        break
                        if tg:
                            out.append(CallSite(caller=fi, node=v, kind="dunder", targets=tg, resolved=True))
        # nested defs are separate functions; a lambda/def defined here is "called" when passed around:
        return out

    def _callable_ref(self, a: ast.AST, fi: FuncInfo, env) -> List[FuncInfo]:
        if isinstance(a, ast.Lambda):
            sub = self.prog.func_of_node.get(id(a))
            return [sub] if sub else []
        if isinstance(a, ast.Name):
            p: Optional[FuncInfo] = fi
            while p is not None:
                if a.id in p.children:
                    return [p.children[a.id]]
                p = p.parent
            r = self.prog.resolve_name(fi.module, a.id) if a.id not in env else None
            if r and r[0] == "func":
                return [r[1]]
            return []
        if isinstance(a, ast.Attribute):
            vt = self.types.type_of(a, fi, env)
            return [x[1] for x in members(vt) if x[0] == "bound" and x[1].kind != "property"]
        return []

    # ------------------------------------------------------------ whole program
    def callers(self) -> Dict[str, List[CallSite]]:
        if self._callers is None:
            self._callers = {}
            for fi in list(self.prog.functions.values()):
                for cs in self.sites(fi):
                    for tg in cs.targets:
                        self._callers.setdefault(tg.qualname, []).append(cs)
        return self._callers

    def callers_of(self, fi: FuncInfo) -> List[CallSite]:
        return self.callers().get(fi.qualname, [])

    def reachable(self, roots: List[FuncInfo], stop: Set[str] = None, include_nested: bool = True) -> Dict[str, List[str]]:
        """Functions reachable from roots -> one witness chain (qualnames, root first)."""
        seen: Dict[str, List[str]] = {}
        work: List[Tuple[FuncInfo, List[str]]] = [(r, [r.qualname]) for r in roots]
        while work:
            fi, chain = work.pop(0)
            if fi.qualname in seen:
                continue
            seen[fi.qualname] = chain
            if stop and fi.qualname in stop:
                continue
            for cs in self.sites(fi):
                for tg in cs.targets:
                    if tg.qualname not in seen:
                        work.append((tg, chain + [tg.qualname]))
        return seen

    def stats(self, funcs: List[FuncInfo]) -> Dict[str, int]:
        total = resolved = by_name = 0
        for fi in funcs:
            for cs in self.sites(fi):
                if cs.kind != "call":
                    continue
                total += 1
                if cs.resolved:
                    resolved += 1
                if cs.by_name:
                    by_name += 1
        return {"call_sites": total, "resolved": resolved, "resolved_by_name_only": by_name, "unresolved": total - resolved}

    def unresolved(self, funcs: List[FuncInfo]) -> List[str]:
        out = []
        for fi in funcs:
            for cs in self.sites(fi):
                if cs.kind == "call" and not cs.resolved:
                    out.append(f"{fi.qualname}: {ast.unparse(cs.node)[:80]}")
        return out


COMMON_NAMES = {
    "get", "set", "add", "pop", "append", "remove", "clear", "update", "close", "start", "stop", "send", "recv",
    "put", "join", "cancel", "wait", "parse", "encode", "decode", "items", "keys", "values", "copy", "index",
    "emit", "on", "write", "read", "run", "map", "state", "extend", "insert", "discard", "sort", "format", "split",
}
