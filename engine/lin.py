"""Linear forms over integer atoms, fact states, and a small sound entailment prover.

A fact is ``L >= 0`` or ``L == 0`` for a linear form L with integer coefficients over
*atoms* (pure expressions such as ``pos``, ``len(data)``, ``chunk.flags``, ghost loop
counters).  Entailment is decided by eliminating equalities and then searching for a
non-negative combination of facts (Farkas certificate) with bounded depth — sound,
incomplete, no solver.
"""
from __future__ import annotations

import ast
from math import gcd
from typing import Dict, FrozenSet, Iterable, List, Optional, Set, Tuple


class Lin:
    __slots__ = ("t", "c", "_h")

    def __init__(self, terms: Dict[str, int] = None, c: int = 0) -> None:
        items = tuple(sorted((a, k) for a, k in (terms or {}).items() if k != 0))
        self.t: Tuple[Tuple[str, int], ...] = items
        self.c = c
        self._h = hash((items, c))

    # constructors
    @staticmethod
    def const(c: int) -> "Lin":
        return Lin({}, c)

    @staticmethod
    def atom(a: str, k: int = 1) -> "Lin":
        return Lin({a: k}, 0)

    def __hash__(self) -> int:
        return self._h

    def __eq__(self, o: object) -> bool:
        return isinstance(o, Lin) and self.t == o.t and self.c == o.c

    def __repr__(self) -> str:
        parts = []
        for a, k in self.t:
            if k == 1:
                parts.append(f"+ {a}")
            elif k == -1:
                parts.append(f"- {a}")
            elif k > 0:
                parts.append(f"+ {k}*{a}")
            else:
                parts.append(f"- {-k}*{a}")
        if self.c or not parts:
            parts.append(f"+ {self.c}" if self.c >= 0 else f"- {-self.c}")
        s = " ".join(parts)
        return s[2:] if s.startswith("+ ") else s

    def terms(self) -> Dict[str, int]:
        return dict(self.t)

    def atoms(self) -> List[str]:
        return [a for a, _ in self.t]

    def coef(self, a: str) -> int:
        for x, k in self.t:
            if x == a:
                return k
        return 0

    def is_const(self) -> bool:
        return not self.t

    def __add__(self, o: "Lin") -> "Lin":
        d = dict(self.t)
        for a, k in o.t:
            d[a] = d.get(a, 0) + k
        return Lin(d, self.c + o.c)

    def __sub__(self, o: "Lin") -> "Lin":
        d = dict(self.t)
        for a, k in o.t:
            d[a] = d.get(a, 0) - k
        return Lin(d, self.c - o.c)

    def __neg__(self) -> "Lin":
        return Lin({a: -k for a, k in self.t}, -self.c)

    def scale(self, m: int) -> "Lin":
        return Lin({a: k * m for a, k in self.t}, self.c * m)

    def shift(self, c: int) -> "Lin":
        return Lin(dict(self.t), self.c + c)

    def subst(self, a: str, repl: "Lin") -> "Lin":
        k = self.coef(a)
        if k == 0:
            return self
        d = dict(self.t)
        del d[a]
        return Lin(d, self.c) + repl.scale(k)

    def rename(self, mapping) -> Optional["Lin"]:
        d: Dict[str, int] = {}
        for a, k in self.t:
            b = mapping(a)
            if b is None:
                return None
            d[b] = d.get(b, 0) + k
        return Lin(d, self.c)

    def tighten(self) -> "Lin":
        """Normalise `L >= 0` over the integers: divide by gcd, floor the constant."""
        if not self.t:
            return self
        g = 0
        for _, k in self.t:
            g = gcd(g, abs(k))
        if g <= 1:
            return self
        return Lin({a: k // g for a, k in self.t}, self.c // g)  # floor division tightens

    def eq_norm(self) -> "Lin":
        """Normalise `L == 0`: gcd-reduce when exact, first coefficient positive."""
        if not self.t:
            return self
        g = 0
        for _, k in self.t:
            g = gcd(g, abs(k))
        L = self
        if g > 1 and self.c % g == 0:
            L = Lin({a: k // g for a, k in self.t}, self.c // g)
        if L.t[0][1] < 0:
            L = -L
        return L


# ---------------------------------------------------------------------- atoms
_ATOM_DEPS: Dict[str, Tuple[FrozenSet[str], FrozenSet[str]]] = {}


def atom_deps(a: str) -> Tuple[FrozenSet[str], FrozenSet[str]]:
    """(local names, attribute names) an atom's value depends on."""
    r = _ATOM_DEPS.get(a)
    if r is None:
        if a.startswith("#"):
            r = (frozenset(), frozenset())
        else:
            try:
                tree = ast.parse(a, mode="eval")
            except SyntaxError:
                tree = None
            names: Set[str] = set()
            attrs: Set[str] = set()
            if tree is not None:
                for n in ast.walk(tree):
                    if isinstance(n, ast.Name):
                        names.add(n.id)
                    elif isinstance(n, ast.Attribute):
                        attrs.add(n.attr)
                    elif isinstance(n, ast.Subscript):
                        attrs.add("[]")
            names.discard("len")
            r = (frozenset(names), frozenset(attrs))
        _ATOM_DEPS[a] = r
    return r


def is_len_atom(a: str) -> bool:
    return a.startswith("len(")


# ---------------------------------------------------------------------- state
class Facts:
    """Immutable set of linear facts plus opaque predicates."""

    __slots__ = ("ge", "eq", "preds", "_h", "_sv", "_memo")

    def __init__(self, ge: Iterable[Lin] = (), eq: Iterable[Lin] = (), preds: Iterable[tuple] = ()) -> None:
        self.ge: FrozenSet[Lin] = frozenset(ge)
        self.eq: FrozenSet[Lin] = frozenset(eq)
        self.preds: FrozenSet[tuple] = frozenset(preds)
        self._h = hash((self.ge, self.eq, self.preds))
        self._sv = None
        self._memo = {}

    def __hash__(self) -> int:
        return self._h

    def __eq__(self, o: object) -> bool:
        return isinstance(o, Facts) and self.ge == o.ge and self.eq == o.eq and self.preds == o.preds

    def __repr__(self) -> str:
        return "{" + "; ".join([f"{x} >= 0" for x in sorted(self.ge, key=repr)] + [f"{x} == 0" for x in sorted(self.eq, key=repr)]
                               + [repr(p) for p in sorted(self.preds, key=repr)]) + "}"

    # ---- adding
    def add_ge(self, L: Lin) -> Optional["Facts"]:
        """Add L >= 0. Returns None if this makes the state contradictory."""
        L = L.tighten()
        if L.is_const():
            return self if L.c >= 0 else None
        if L in self.ge:
            return self
        if self.entails_ge(-L.shift(1)):  # facts say L <= -1
            return None
        return Facts(self.ge | {L}, self.eq, self.preds)

    def add_eq(self, L: Lin) -> Optional["Facts"]:
        L = L.eq_norm()
        if L.is_const():
            return self if L.c == 0 else None
        if L in self.eq:
            return self
        if self.entails_ge(L.shift(-1)) or self.entails_ge((-L).shift(-1)):
            return None
        return Facts(self.ge, self.eq | {L}, self.preds)

    def add_pred(self, p: tuple) -> "Facts":
        if p in self.preds:
            return self
        return Facts(self.ge, self.eq, self.preds | {p})

    def has_pred(self, p: tuple) -> bool:
        return p in self.preds

    # ---- killing
    def kill(self, names: Iterable[str] = (), attrs: Iterable[str] = (), all_heap: bool = False) -> "Facts":
        names = frozenset(names)
        attrs = frozenset(attrs)

        def dead_atom(a: str) -> bool:
            dn, da = atom_deps(a)
            if dn & names:
                return True
            if all_heap and da:
                return True
            if da & attrs:
                return True
            return False

        def dead_lin(L: Lin) -> bool:
            return any(dead_atom(a) for a in L.atoms())

        dead_atoms = set()
        for L in list(self.ge) + list(self.eq):
            for a in L.atoms():
                if dead_atom(a):
                    dead_atoms.add(a)
        for p in self.preds:
            for a in pred_atoms(p):
                if dead_atom(a):
                    dead_atoms.add(a)
        if not dead_atoms:
            return self
        ge = set(self.ge)
        eq = set(self.eq)
        # projection: eliminate a dying atom through an equality in which it has a unit coefficient
        for a in sorted(dead_atoms):
            pivot = None
            for E in sorted(eq, key=repr):
                if abs(E.coef(a)) == 1:
                    pivot = E
                    break
            if pivot is None:
                continue
            k = pivot.coef(a)
            # a = -(pivot - k*a)/k
            rest = pivot.subst(a, Lin.const(0))
            repl = -rest if k == 1 else rest
            eq.discard(pivot)
            eq = {E.subst(a, repl).eq_norm() for E in eq}
            ge = {G.subst(a, repl).tighten() for G in ge}
        ge = {G for G in ge if not dead_lin(G) and not G.is_const()}
        eq = {E for E in eq if not dead_lin(E) and not E.is_const()}
        preds = {p for p in self.preds if not any(dead_atom(a) for a in pred_atoms(p))}
        return Facts(ge, eq, preds)

    def subst_atom(self, a: str, repl: Lin) -> "Facts":
        """Rewrite every fact with atom a := repl (used for invertible updates x += c)."""
        ge = {G.subst(a, repl).tighten() for G in self.ge}
        eq = {E.subst(a, repl).eq_norm() for E in self.eq}
        preds = set()
        for p in self.preds:
            if a in pred_atoms(p):
                if p[0] == "mod" and isinstance(p[1], Lin):
                    preds.add(("mod", p[1].subst(a, repl), p[2], p[3]))
                # other predicates about a are dropped
            else:
                preds.add(p)
        return Facts([g for g in ge if not g.is_const()], [e for e in eq if not e.is_const()], preds)

    # ---- entailment
    def _solved(self) -> Tuple[Dict[str, Lin], List[Lin]]:
        """Gaussian elimination of equalities with unit pivots. Returns (definitions, residual eqs)."""
        if self._sv is not None:
            return self._sv
        defs: Dict[str, Lin] = {}
        residual: List[Lin] = []
        for E in sorted(self.eq, key=repr):
            for a, r in defs.items():
                E = E.subst(a, r)
            if E.is_const():
                continue
            pivot = None
            # prefer eliminating plain variables / ghosts before len() atoms
            for a, k in sorted(E.t, key=lambda x: (is_len_atom(x[0]), x[0])):
                if abs(k) == 1:
                    pivot = (a, k)
                    break
            if pivot is None:
                residual.append(E)
                continue
            a, k = pivot
            rest = E.subst(a, Lin.const(0))
            repl = -rest if k == 1 else rest
            for b in list(defs):
                defs[b] = defs[b].subst(a, repl)
            defs[a] = repl
        self._sv = (defs, residual)
        return defs, residual

    def reduce(self, L: Lin) -> Lin:
        defs, _ = self._solved()
        for a, r in defs.items():
            L = L.subst(a, r)
        return L

    def entails_ge(self, L: Lin, depth: int = 4) -> bool:
        """facts |- L >= 0 ?"""
        if L.is_const():
            return L.c >= 0
        m = self._memo.get(L)
        if m is not None:
            return m
        r0 = self._entails_ge(L, depth)
        self._memo[L] = r0
        return r0

    def _entails_ge(self, L: Lin, depth: int) -> bool:
        defs, residual = self._solved()
        for a, r in defs.items():
            L = L.subst(a, r)
        if L.is_const():
            return L.c >= 0
        facts: List[Lin] = []
        for G in self.ge:
            for a, r in defs.items():
                G = G.subst(a, r)
            if not G.is_const():
                facts.append(G)
        for E in residual:
            facts.append(E)
            facts.append(-E)
        # intrinsic: len(...) >= 0, ghosts >= 0
        intrinsic_atoms = set()
        for X in [L] + facts:
            for a in X.atoms():
                if is_len_atom(a) or a.startswith("#"):
                    intrinsic_atoms.add(a)
        for a in intrinsic_atoms:
            facts.append(Lin.atom(a))
        seen: Set[Lin] = set()
        return _farkas(L, facts, depth, seen)

    def entails_eq(self, L: Lin) -> bool:
        return self.entails_ge(L) and self.entails_ge(-L)

    def bounds(self, L: Lin) -> Tuple[Optional[int], Optional[int]]:
        """Cheap constant bounds for L from the facts (None = unbounded)."""
        lo = hi = None
        L = self.reduce(L)
        if L.is_const():
            return L.c, L.c
        # try a ladder of candidate constants taken from the facts
        cands = {0, 1, -1}
        for G in self.ge:
            cands.add(G.c)
            cands.add(-G.c)
        for c in sorted(cands):
            if self.entails_ge(L.shift(-c)):
                lo = c if lo is None or c > lo else lo
            if self.entails_ge((-L).shift(c)):
                hi = c if hi is None or c < hi else hi
        return lo, hi


def _farkas(L: Lin, facts: List[Lin], depth: int, seen: Set[Lin]) -> bool:
    if L.is_const():
        return L.c >= 0
    if depth == 0 or L in seen:
        return False
    seen.add(L)
    for a, cl in L.t:
        for F in facts:
            cf = F.coef(a)
            if cf == 0 or (cf > 0) != (cl > 0):
                continue
            # k*L - m*F eliminates a, with k=|cf|, m=|cl| (both positive)
            L2 = L.scale(abs(cf)) - F.scale(abs(cl))
            if _farkas(L2, facts, depth - 1, seen):
                return True
    return False


def pred_atoms(p: tuple) -> List[str]:
    out: List[str] = []
    for x in p[1:]:
        if isinstance(x, str):
            out.append(x)
        elif isinstance(x, Lin):
            out.extend(x.atoms())
        elif isinstance(x, tuple):
            for y in x:
                if isinstance(y, str):
                    out.append(y)
    return out


def join_facts(a: Optional[Facts], b: Optional[Facts]) -> Optional[Facts]:
    if a is None:
        return b
    if b is None:
        return a
    if a == b:
        return a
    ge: Set[Lin] = set()
    eq: Set[Lin] = set()
    for E in a.eq:
        if E in b.eq or b.entails_eq(E):
            eq.add(E)
        else:
            if b.entails_ge(E):
                ge.add(E.tighten())
            if b.entails_ge(-E):
                ge.add((-E).tighten())
    for E in b.eq:
        if E in eq:
            continue
        if a.entails_eq(E):
            eq.add(E)
        else:
            if a.entails_ge(E):
                ge.add(E.tighten())
            if a.entails_ge(-E):
                ge.add((-E).tighten())
    for G in a.ge:
        if G in b.ge or b.entails_ge(G):
            ge.add(G)
    for G in b.ge:
        if G not in ge and a.entails_ge(G):
            ge.add(G)
    # relational closure: atoms that are constant in both states with the same difference
    ca = _const_atoms(a)
    cb = _const_atoms(b)
    common = sorted(set(ca) & set(cb))
    if 2 <= len(common) <= 14:
        for i, x in enumerate(common):
            for y in common[i + 1:]:
                if ca[x] != cb[x] and ca[x] - ca[y] == cb[x] - cb[y]:
                    eq.add((Lin.atom(x) - Lin.atom(y)).shift(-(ca[x] - ca[y])).eq_norm())
    return Facts(ge, eq, _join_preds(a.preds, b.preds))


def _const_atoms(f: Facts) -> Dict[str, int]:
    defs, _ = f._solved()
    return {a: r.c for a, r in defs.items() if r.is_const()}


def _join_preds(pa, pb):
    out = set(pa & pb)
    # float bounds: ('flo', atom, c) means atom >= c ; ('fhi', atom, c) means atom <= c
    for kind, pick in (("flo", min), ("fhi", max)):
        da = {p[1]: p[2] for p in pa if p[0] == kind}
        db = {p[1]: p[2] for p in pb if p[0] == kind}
        for k in da.keys() & db.keys():
            out.add((kind, k, pick(da[k], db[k])))
    return frozenset(out)


def widen_facts(old: Optional[Facts], new: Optional[Facts]) -> Optional[Facts]:
    """Keep only facts of `old` still entailed by `new` (finite descending chain)."""
    if old is None or new is None:
        return new
    ge = {G for G in old.ge if G in new.ge or new.entails_ge(G)}
    eq = set()
    for E in old.eq:
        if E in new.eq or new.entails_eq(E):
            eq.add(E)
        else:
            if new.entails_ge(E):
                ge.add(E.tighten())
            if new.entails_ge(-E):
                ge.add((-E).tighten())
    return Facts(ge, eq, _join_preds(old.preds, new.preds))


def facts_equal(a: Optional[Facts], b: Optional[Facts]) -> bool:
    if a is None or b is None:
        return a is b
    if a == b:
        return True
    if a.preds != b.preds:
        return False
    for G in a.ge:
        if G not in b.ge and not b.entails_ge(G):
            return False
    for G in b.ge:
        if G not in a.ge and not a.entails_ge(G):
            return False
    for E in a.eq:
        if E not in b.eq and not b.entails_eq(E):
            return False
    for E in b.eq:
        if E not in a.eq and not a.entails_eq(E):
            return False
    return True
