"""Expression evaluation for the facts domain (mix-in of Absint)."""
from __future__ import annotations

import ast
from typing import Any, Dict, List, Optional, Tuple

from .aval import AVal, NOCONST, St, iv_add, iv_join, iv_mul, iv_neg, iv_sub, st_join
from .index import Unknown, mangle, parse_struct_fmt, unparse
from .lin import Lin
from .types import members

SIZED_KINDS = ("bytes", "str", "list", "tuple", "deque", "set", "dict")
PURE_BUILTINS = {
    "len", "isinstance", "min", "max", "abs", "int", "float", "bool", "round", "range", "str", "repr", "hasattr",
    "tuple", "list", "set", "dict", "sorted", "enumerate", "zip", "sum", "any", "all", "id", "type", "bytes",
    "bytearray", "cast", "getattr", "callable", "reversed", "iter", "frozenset", "ord", "chr", "hex", "pow",
    "divmod", "hash", "print", "format", "super", "filter", "map", "next",
}


class ExprMixin:
    # ------------------------------------------------------------ atoms
    def atom_of(self, e: ast.expr) -> Optional[str]:
        """Key of a pure expression usable as an atom, or None."""
        if isinstance(e, ast.Name):
            return e.id
        if isinstance(e, ast.Attribute):
            b = self.atom_of(e.value)
            return f"{b}.{e.attr}" if b is not None else None
        if isinstance(e, ast.Subscript) and not isinstance(e.slice, ast.Slice):
            b = self.atom_of(e.value)
            if b is None:
                return None
            if isinstance(e.slice, ast.Constant) and isinstance(e.slice.value, int):
                return f"{b}[{e.slice.value}]"
            if isinstance(e.slice, ast.UnaryOp) and isinstance(e.slice.op, ast.USub) and isinstance(e.slice.operand, ast.Constant):
                return f"{b}[-{e.slice.operand.value}]"
            i = self.atom_of(e.slice)
            return f"{b}[{i}]" if i is not None else None
        return None

    def len_atom(self, e: ast.expr) -> Optional[str]:
        a = self.atom_of(e)
        return f"len({a})" if a is not None else None

    def static_kind(self, e: ast.expr) -> Optional[str]:
        t = self.types.type_of(e, self.fi)
        ks = {m[0] for m in members(t)}
        ks.discard("none")
        if len(ks) == 1:
            k = ks.pop()
            if k in ("bytes", "str", "list", "deque", "set", "dict", "tuple", "int", "bool", "float"):
                return k
            if k == "inst":
                return "obj"
        return None

    def is_wire_typed(self, e: ast.expr) -> bool:
        t = self.types.type_of(e, self.fi)
        for m in members(t):
            if m[0] == "inst" and m[1].qualname in self.cfg.wire_classes:
                return True
            if m[0] in ("list", "deque", "set") and m[1] is not None:
                for x in members(m[1]):
                    if x[0] == "inst" and x[1].qualname in self.cfg.wire_classes:
                        return True
        return False

    # ------------------------------------------------------------ entry points
    def eval(self, st: St, e: ast.expr) -> Optional[St]:
        st, v = self.ev(st, e)
        self._last_val = v
        return st

    def ev(self, st: St, e: ast.expr) -> Tuple[St, AVal]:
        m = getattr(self, "ev_" + type(e).__name__, None)
        if m is None:
            # generic: evaluate children for their obligations
            for c in ast.iter_child_nodes(e):
                if isinstance(c, ast.expr):
                    st, _ = self.ev(st, c)
            return st, AVal()
        return m(st, e)

    def val_bounds(self, st: St, v: AVal) -> Tuple[Optional[int], Optional[int]]:
        if v.const is not NOCONST and isinstance(v.const, (int, float)):
            return v.const, v.const
        lo, hi = v.lo, v.hi
        if v.lin is not None and (lo is None or hi is None):
            if v.lin.is_const():
                return v.lin.c, v.lin.c
            l2, h2 = self.lin_bounds(st, v.lin)
            if lo is None or (l2 is not None and l2 > lo):
                lo = l2
            if hi is None or (h2 is not None and h2 < hi):
                hi = h2
        return lo, hi

    def lin_bounds(self, st: St, L: Lin) -> Tuple[Optional[int], Optional[int]]:
        """Interval of a linear form from single-atom facts (sum of per-atom bounds)."""
        L = st.f.reduce(L)
        lo: Optional[int] = L.c
        hi: Optional[int] = L.c
        for a, k in L.t:
            alo, ahi = self.atom_bounds(st, a)
            if k > 0:
                lo = None if lo is None or alo is None else lo + k * alo
                hi = None if hi is None or ahi is None else hi + k * ahi
            else:
                lo = None if lo is None or ahi is None else lo + k * ahi
                hi = None if hi is None or alo is None else hi + k * alo
        if lo is None and st.f.entails_ge(L.shift(-1)):
            lo = 1
        if lo is None and st.f.entails_ge(L):
            lo = 0
        if hi is None and st.f.entails_ge((-L).shift(-1)):
            hi = -1
        return lo, hi

    def atom_bounds(self, st: St, a: str) -> Tuple[Optional[int], Optional[int]]:
        lo: Optional[int] = 0 if (a.startswith("len(") or a.startswith("#")) else None
        hi: Optional[int] = None
        for G in st.f.ge:
            if len(G.t) == 1 and G.t[0][0] == a:
                k = G.t[0][1]
                # k*a + c >= 0
                if k > 0:
                    b = -(G.c // k)  # a >= ceil(-c/k)
                    lo = b if lo is None or b > lo else lo
                else:
                    b = G.c // (-k)  # a <= floor(c/-k)
                    hi = b if hi is None or b < hi else hi
        for E in st.f.eq:
            if len(E.t) == 1 and E.t[0][0] == a and E.c % E.t[0][1] == 0:
                v = -E.c // E.t[0][1]
                return v, v
        return lo, hi

    # ------------------------------------------------------------ leaves
    def ev_Constant(self, st: St, e: ast.Constant):
        return st, AVal.of_const(e.value)

    def ev_JoinedStr(self, st: St, e: ast.JoinedStr):
        for v in e.values:
            if isinstance(v, ast.FormattedValue):
                st, _ = self.ev(st, v.value)
        return st, AVal(kind="str")

    def ev_Name(self, st: St, e: ast.Name):
        fi = self.fi
        name = e.id
        local = self.is_local(name)
        if not local:
            try:
                c = self.prog.const_eval(e, fi.module, fi.cls)
                return st, AVal.of_const(c)
            except Unknown:
                pass
            return st, AVal(kind=self.static_kind(e))
        if isinstance(e.ctx, ast.Load) and name not in st.defd:
            exempt = (fi.qualname, name) in self.cfg.exempt_unbound
            if exempt:
                self.oblige(st, e, "unbound", "UnboundLocalError", True, f"`{name}` definite assignment exempted", by="exemption table")
            else:
                self.oblige(st, e, "unbound", "UnboundLocalError", False,
                            f"local `{name}` is not assigned on every path reaching this use")
                st = St(st.f, st.defd | {name}, st.taint)
        pv = (getattr(self, "_pvals", None) or {}).get(name)
        kind = self.static_kind(e)
        v = AVal(kind=kind, taint=name in st.taint)
        if pv is not None and not self.reassigned(name):
            v = pv.copy()
            v.taint = v.taint or name in st.taint
            if v.kind is None:
                v.kind = kind
        nv = self.name_val(name)
        if nv is not None:
            if v.elem is None and nv.elem is not None:
                v.elem = nv.elem
            if v.elems is None and nv.elems is not None:
                v.elems = [self._heapify(x) for x in nv.elems]
        if kind in SIZED_KINDS or (kind is None and v.length is None):
            if v.length is None or not v.length.is_const():
                v.length = Lin.atom(f"len({name})")
        if kind in (None, "int", "bool") and v.lin is None:
            v.lin = Lin.atom(name)
        if v.lin is not None and not v.lin.is_const():
            lo, hi = self.lin_bounds(st, v.lin)
            v.lo = lo if v.lo is None or (lo is not None and lo > v.lo) else v.lo
            v.hi = hi if v.hi is None or (hi is not None and hi < v.hi) else v.hi
        if st.f.has_pred(("none", name)):
            v = AVal.of_const(None)
        self._apply_float_preds(st, name, v)
        return st, v

    def is_local(self, name: str) -> bool:
        fi = self.fi
        key = fi.qualname
        cache = self.__dict__.setdefault("_locals_cache", {})
        if key not in cache:
            names = set()
            f: Any = fi
            while f is not None:
                names |= set(f.params)
                for n in ast.walk(f.node):
                    if isinstance(n, ast.Name) and isinstance(n.ctx, (ast.Store, ast.Del)):
                        names.add(n.id)
                    elif isinstance(n, ast.ExceptHandler) and n.name:
                        names.add(n.name)
                    elif isinstance(n, (ast.FunctionDef, ast.AsyncFunctionDef)) and n is not f.node:
                        names.add(n.name)
                f = f.parent
            # global/nonlocal declarations are rare in this repo; treat `global x` names as non-local
            for n in ast.walk(fi.node):
                if isinstance(n, ast.Global):
                    names -= set(n.names)
            cache[key] = names
        return name in cache[key]

    def reassigned(self, name: str) -> bool:
        fi = self.fi
        cache = self.__dict__.setdefault("_reassigned_cache", {})
        key = fi.qualname
        if key not in cache:
            s = set()
            for n in ast.walk(fi.node):
                if isinstance(n, ast.Name) and isinstance(n.ctx, (ast.Store, ast.Del)):
                    s.add(n.id)
            cache[key] = s
        return name in cache[key]

    def ev_Attribute(self, st: St, e: ast.Attribute):
        fi = self.fi
        # constants: Module.CONST, Class.attr, self.CLASSCONST
        if isinstance(e.value, ast.Name) and e.value.id in ("self", "cls") and fi.cls is not None and self.is_local(e.value.id):
            cv = self._class_const(fi.cls, e.attr)
            if cv is not None:
                return st, cv
        elif not (isinstance(e.value, ast.Name) and self.is_local(e.value.id)):
            try:
                c = self.prog.const_eval(e, fi.module, fi.cls)
                return st, AVal.of_const(c)
            except Unknown:
                pass
        st, base = self.ev(st, e.value)
        self.none_deref_check(st, e)
        # property read -> call
        for cs in self.cg.sites(fi):
            if cs.node is e and cs.kind == "property":
                return self.call_targets(st, e, cs.targets, [base], [e.value], {}, self_arg=e.value)
        a = self.atom_of(e)
        kind = self.static_kind(e)
        v = AVal(kind=kind)
        v.taint = base.taint or self._tainted_field(e) or (e.attr in self.tainted_attrs and self._heap_taint_applies(e))
        if a is not None:
            if kind in SIZED_KINDS or kind is None:
                v.length = Lin.atom(f"len({a})")
            if kind in (None, "int", "bool"):
                v.lin = Lin.atom(a)
                v.lo, v.hi = self.lin_bounds(st, v.lin)
            if st.f.has_pred(("none", a)):
                return st, AVal.of_const(None)
            nf = self._none_field(e)
            if nf and not st.f.has_pred(("notnone", a)):
                v.maybe_none = True
                v.src = a
        if a is not None:
            self._apply_float_preds(st, a, v)
        hv = self.attr_vals.get(e.attr)
        if hv is not None and self._heap_taint_applies(e):
            if v.elem is None and hv.elem is not None:
                v.elem = self._heapify(hv.elem)
            if v.elems is None and hv.elems is not None:
                v.elems = [self._heapify(x) for x in hv.elems]
        fr = self.field_range(e)
        if fr is not None:
            lo, hi = fr
            v.lo = lo if v.lo is None or (lo is not None and lo > v.lo) else v.lo
            v.hi = hi if v.hi is None or (hi is not None and hi < v.hi) else v.hi
        return st, v

    def _apply_float_preds(self, st: St, a: str, v: AVal) -> None:
        if v.kind in ("int", "bool") and v.lin is not None:
            return
        for p in st.f.preds:
            if p[0] == "flo" and p[1] == a and (v.lo is None or p[2] > v.lo):
                v.lo = p[2]
            elif p[0] == "fhi" and p[1] == a and (v.hi is None or p[2] < v.hi):
                v.hi = p[2]

    def _heapify(self, v: AVal) -> AVal:
        c = v.copy()
        c.src = "heap"
        c.lin = None
        c.length = None
        if c.elem is not None:
            c.elem = self._heapify(c.elem)
        if c.elems is not None:
            c.elems = [self._heapify(x) for x in c.elems]
        return c

    def field_range(self, e: ast.Attribute):
        fr = getattr(self, "field_ranges", None)
        if fr is None:
            return None
        return fr.lookup(e, self.fi)

    def _class_const(self, ci, attr: str) -> Optional[AVal]:
        """Value of a class-level constant read through self/cls: joined over the class and
        its subclasses; None if the attribute is (also) an instance field."""
        name = mangle(ci.name, attr)
        if self._assigned_in_methods(ci, name):
            return None
        vals = []
        for c in [ci] + self.prog.subclasses(ci):
            r = self.prog.class_attr_expr(c, attr)
            if r is None:
                continue
            if attr in r[0].methods:
                return None
            try:
                vals.append(self.prog.const_eval(r[1], r[0].module, r[0]))
            except Unknown:
                return None
        if not vals:
            return None
        if all(type(v) is type(vals[0]) and v == vals[0] for v in vals):
            return AVal.of_const(vals[0])
        if all(isinstance(v, int) and not isinstance(v, bool) for v in vals):
            return AVal(kind="int", lo=min(vals), hi=max(vals))
        return None

    def _assigned_in_methods(self, ci, name: str) -> bool:
        cache = self.__dict__.setdefault("_assigned_cache", {})
        key = (ci.qualname, name)
        if key not in cache:
            hit = False
            for c in [ci] + self.prog.subclasses(ci) + self.prog.mro(ci):
                for m in c.methods.values():
                    for n in ast.walk(m.node):
                        if isinstance(n, ast.Attribute) and isinstance(n.ctx, ast.Store) and mangle(c.name, n.attr) == name:
                            hit = True
            cache[key] = hit
        return cache[key]

    def _none_field(self, e: ast.Attribute) -> bool:
        if not self.cfg.none_fields:
            return False
        t = self.types.type_of(e.value, self.fi)
        for m in members(t):
            if m[0] == "inst":
                for c in self.prog.mro(m[1]):
                    if (c.qualname, e.attr) in self.cfg.none_fields:
                        return True
        return False

    def none_deref_check(self, st: St, e: ast.Attribute) -> None:
        if not (self.cfg.none_deref_fields and isinstance(e.value, ast.Attribute)):
            return
        bt = self.types.type_of(e.value.value, self.fi)
        for m in members(bt):
            if m[0] == "inst" and any((c.qualname, e.value.attr) in self.cfg.none_deref_fields for c in self.prog.mro(m[1])):
                ba = self.atom_of(e.value)
                ok = ba is not None and (st.f.has_pred(("notnone", ba)) or st.f.has_pred(("truthy", ba)))
                self.oblige(st, e, "noneattr", "AttributeError", ok,
                            f"`{unparse(e.value)}` is None until it has been set up; `.{e.attr}` on it raises AttributeError",
                            by=f"{ba} is not None on this path")

    def _heap_taint_applies(self, e: ast.Attribute) -> bool:
        # attribute-name based heap taint: for message/packet objects (any non-self object, or self inside
        # a message class); controller state (self.* elsewhere) stays under the explicit table
        if isinstance(e.value, ast.Name) and e.value.id in ("self", "cls"):
            return self.fi.cls is not None and self.fi.cls.qualname in self.cfg.wire_classes
        return True

    def _tainted_field(self, e: ast.Attribute) -> bool:
        if not self.cfg.tainted_self_fields:
            return False
        t = self.types.type_of(e.value, self.fi)
        for m in members(t):
            if m[0] == "inst":
                for c in self.prog.mro(m[1]):
                    if e.attr in self.cfg.tainted_self_fields.get(c.qualname, ()):
                        return True
        return False

    # ------------------------------------------------------------ containers
    def ev_Tuple(self, st: St, e):
        elems = []
        taint = False
        for x in e.elts:
            st, v = self.ev(st, x)
            elems.append(v)
            taint = taint or v.taint
        return st, AVal(kind="tuple", elems=elems, length=Lin.const(len(elems)), taint=taint)

    def ev_List(self, st: St, e):
        elems = []
        taint = False
        for x in e.elts:
            st, v = self.ev(st, x)
            elems.append(v)
            taint = taint or v.taint
        el = None
        for v in elems:
            el = v if el is None else self.join_vals(el, v)
        return st, AVal(kind="list", elems=elems, length=Lin.const(len(elems)), taint=taint, elem=el)

    def ev_Set(self, st: St, e):
        for x in e.elts:
            st, _ = self.ev(st, x)
        return st, AVal(kind="set")

    def ev_Dict(self, st: St, e):
        for x in list(e.keys) + list(e.values):
            if x is not None:
                st, _ = self.ev(st, x)
        return st, AVal(kind="dict", length=Lin.const(len(e.keys)) if all(k is not None for k in e.keys) else None)

    def _comp(self, st: St, e, elts: List[ast.expr], kind: str):
        # evaluate generators: bind targets to unknown (tainted if iter tainted), evaluate conditions/elt once
        inner = st
        taint = False
        bound: List[str] = []
        for g in e.generators:
            inner, it = self.ev(inner, g.iter)
            taint = taint or it.taint
            for n in ast.walk(g.target):
                if isinstance(n, ast.Name):
                    bound.append(n.id)
            inner = self.kill_names(inner, bound)
            for nm in bound:
                inner = inner.define(nm, it.taint)
            inner = self.bind_elem(inner, g.target, it)
            # `for x in range(start, stop, k)` inside a comprehension: same facts as in a for statement
            rng = self._range_args(st, g.iter)
            if rng is not None and isinstance(g.target, ast.Name):
                inner2 = self._range_iteration_facts(inner, st, g.target.id, rng, self.fresh_ghost(g.target, "c"))
                if inner2 is not None:
                    inner = inner2
            for c in g.ifs:
                t, f = self.interp.cond(inner, c)
                inner = t if t is not None else inner
        ev = None
        for x in elts:
            inner, v = self.ev(inner, x)
            taint = taint or v.taint
            ev = v
        # the comprehension's variables do not leak
        out = St(st.f, st.defd, st.taint)
        length = None
        if kind == "list" and len(e.generators) == 1 and not e.generators[0].ifs:
            it_node = e.generators[0].iter
            rng = self._range_args(st, it_node)
            if rng is not None and rng[2].const == 1 and rng[0].lin is not None and rng[1].lin is not None:
                n = rng[1].lin - rng[0].lin
                if st.f.entails_ge(n):
                    length = n
            elif rng is None:
                length = self._val_of(st, it_node).length
        return out, AVal(kind=kind, taint=taint, elem=ev if len(elts) == 1 else None, length=length)

    def _range_iteration_facts(self, inner: St, outer: St, name: str, rng, ghost: str) -> Optional[St]:
        """Facts about one (arbitrary) iteration of range(start, stop, k): start + k*g <= stop - 1, x == start + k*g, and the
        strided-range lemma x + k <= stop when (stop - start) is known to be a multiple of k."""
        start, stop, step = rng
        if not (step.const is not NOCONST and isinstance(step.const, int) and step.const >= 1 and start.lin is not None and stop.lin is not None):
            return None
        k = step.const
        G = Lin.atom(ghost)
        f = inner.f.kill(names=[ghost])
        f2 = f.add_ge(G)
        f = f2 if f2 is not None else f
        f2 = f.add_ge(stop.lin - start.lin - G.scale(k) - Lin.const(1))
        if f2 is None:
            return None
        f = f2
        f2 = f.add_eq(Lin.atom(name) - start.lin - G.scale(k))
        f = f2 if f2 is not None else f
        if k > 1:
            d = stop.lin - start.lin
            for p in outer.f.preds:
                if p[0] == "mod" and p[2] % k == 0 and p[3] == 0 and isinstance(p[1], Lin):
                    diff = d - p[1]
                    if diff.is_const() and diff.c % k == 0:
                        f2 = f.add_ge(stop.lin - Lin.atom(name) - Lin.const(k))
                        f = f2 if f2 is not None else f
        return inner.with_f(f) or inner

    def bind_elem(self, st: St, target: ast.AST, container: AVal) -> St:
        """Bind loop/comprehension target facts from the container's abstract element."""
        el = container.elem
        if el is None:
            return st
        if el.src == "heap":
            if isinstance(target, ast.Name) and not self.__dict__.get("_quiet", 0):
                self.__dict__.setdefault("_name_vals", {})[(self.ctx, self.fi.qualname, target.id)] = el
            return st
        if isinstance(target, ast.Name):
            if not self.__dict__.get("_quiet", 0):
                self.__dict__.setdefault("_name_vals", {})[(self.ctx, self.fi.qualname, target.id)] = el
            return self.assume_val(st, target.id, el)
        if isinstance(target, (ast.Tuple, ast.List)) and el.elems is not None and len(el.elems) == len(target.elts):
            for t, v in zip(target.elts, el.elems):
                if isinstance(t, ast.Name):
                    st = self.assume_val(st, t.id, v)
        return st

    def assume_val(self, st: St, name: str, v: AVal) -> St:
        """Record interval/length facts of value v for local `name`."""
        f = st.f
        if v.kind in (None, "int", "bool"):
            if v.lo is not None:
                f2 = f.add_ge(Lin.atom(name).shift(-v.lo))
                f = f2 if f2 is not None else f
            if v.hi is not None:
                f2 = f.add_ge((-Lin.atom(name)).shift(v.hi))
                f = f2 if f2 is not None else f
        if v.length is not None and v.length.is_const():
            f2 = f.add_eq(Lin.atom(f"len({name})") - v.length)
            f = f2 if f2 is not None else f
        return st.with_f(f) or st

    def ev_ListComp(self, st, e):
        return self._comp(st, e, [e.elt], "list")

    def ev_SetComp(self, st, e):
        return self._comp(st, e, [e.elt], "set")

    def ev_GeneratorExp(self, st, e):
        return self._comp(st, e, [e.elt], "list")

    def ev_DictComp(self, st, e):
        return self._comp(st, e, [e.key, e.value], "dict")

    def ev_Starred(self, st, e):
        return self.ev(st, e.value)

    def ev_Lambda(self, st, e):
        return st, AVal(kind="func")

    def ev_Await(self, st, e):
        st, v = self.ev(st, e.value)
        st = self.kill_heap(st)
        return st, v

    def ev_Yield(self, st, e):
        if e.value is not None:
            st, yv = self.ev(st, e.value)
            if self.yield_stack and not self.__dict__.get("_quiet", 0):
                self.yield_stack[-1].append(yv)
        st = self.kill_heap(st)  # the consumer runs arbitrary code between resumptions
        return st, AVal()

    def ev_YieldFrom(self, st, e):
        st, _ = self.ev(st, e.value)
        return self.kill_heap(st), AVal()

    def ev_NamedExpr(self, st, e):
        st, v = self.ev(st, e.value)
        st = self.assign_name(st, e.target.id, v, e.value)
        return st, v

    def ev_IfExp(self, st, e):
        t, f = self.interp.cond(st, e.test)
        out = None
        vals = []
        if t is not None:
            t, v1 = self.ev(t, e.body)
            vals.append(v1)
            out = st_join(out, t)
        if f is not None:
            f, v2 = self.ev(f, e.orelse)
            vals.append(v2)
            out = st_join(out, f)
        if out is None:
            return st, AVal()
        v = vals[0]
        for x in vals[1:]:
            v = self.join_vals(v, x) or AVal()
        return out, v

    def ev_BoolOp(self, st, e):
        # value context: evaluate with short-circuit so that obligations in later operands
        # are checked under the assumption made by earlier ones
        cur = st
        outs = None
        vals: List[AVal] = []
        is_and = isinstance(e.op, ast.And)
        for i, v in enumerate(e.values):
            if cur is None:
                break
            last = i == len(e.values) - 1
            if last:
                cur, av = self.ev(cur, v)
                vals.append(av)
                outs = st_join(outs, cur)
            else:
                t, f = self.interp.cond(cur, v)
                vals.append(AVal())
                if is_and:
                    outs = st_join(outs, f)
                    cur = t
                else:
                    outs = st_join(outs, t)
                    cur = f
        taint = any(v.taint for v in vals)
        return (outs if outs is not None else st), AVal(taint=taint)

    def ev_UnaryOp(self, st, e):
        st, v = self.ev(st, e.operand)
        if isinstance(e.op, ast.Not):
            return st, AVal(kind="bool", lo=0, hi=1, taint=v.taint)
        if isinstance(e.op, ast.USub):
            if v.maybe_none:
                self.none_ob(st, e, v)
            lo, hi = iv_neg(self.val_bounds(st, v))
            return st, AVal(lin=-v.lin if v.lin is not None else None, lo=lo, hi=hi, kind=v.kind, taint=v.taint,
                            const=(-v.const) if v.const is not NOCONST and isinstance(v.const, (int, float)) else NOCONST)
        if isinstance(e.op, ast.Invert):
            return st, AVal(kind="int", taint=v.taint)
        return st, v

    def none_ob(self, st: St, node: ast.AST, v: AVal) -> None:
        self.oblige(st, node, "none", "TypeError", False,
                    f"`{v.src}` is None until the peer's INIT/INIT-ACK has been processed; arithmetic/comparison on it raises TypeError")

    # ------------------------------------------------------------ compare
    def ev_Compare(self, st, e):
        st, l = self.ev(st, e.left)
        taint = l.taint
        prev = l
        for op, c in zip(e.ops, e.comparators):
            st, r = self.ev(st, c)
            taint = taint or r.taint
            if isinstance(op, (ast.Lt, ast.LtE, ast.Gt, ast.GtE)):
                for x in (prev, r):
                    if x.maybe_none:
                        self.none_ob(st, e, x)
            prev = r
        return st, AVal(kind="bool", lo=0, hi=1, taint=taint)

    # ------------------------------------------------------------ arithmetic
    def ev_BinOp(self, st, e):
        st, a = self.ev(st, e.left)
        st, b = self.ev(st, e.right)
        op = e.op
        taint = a.taint or b.taint
        for x in (a, b):
            if x.maybe_none:
                self.none_ob(st, e, x)
        # constant folding
        if a.const is not NOCONST and b.const is not NOCONST:
            try:
                c = self.prog.const_eval(ast.BinOp(left=ast.Constant(a.const), op=op, right=ast.Constant(b.const)), self.fi.module)
                return st, AVal.of_const(c).with_taint(taint)
            except Exception:
                pass
        ak = a.kind
        bk = b.kind
        sized = lambda k: k in ("bytes", "str", "list", "tuple")  # noqa: E731
        if isinstance(op, ast.Add) and (sized(ak) or sized(bk)):
            ln = a.length + b.length if a.length is not None and b.length is not None else None
            return st, AVal(kind=ak if sized(ak) else bk, length=ln, taint=taint)
        if isinstance(op, ast.Mult) and (sized(ak) or sized(bk)):
            s, n = (a, b) if sized(ak) else (b, a)
            ln = None
            if s.length is not None and s.length.is_const():
                if n.lin is not None:
                    nlo, _ = self.val_bounds(st, n)
                    if nlo is not None and nlo >= 0:
                        ln = n.lin.scale(s.length.c)
            return st, AVal(kind=s.kind, length=ln, taint=taint)
        if isinstance(op, ast.Mod) and ak == "str":
            return st, AVal(kind="str", taint=taint)
        A = self.val_bounds(st, a)
        B = self.val_bounds(st, b)
        fl = ak == "float" or bk == "float"
        if isinstance(op, ast.Add):
            lin = a.lin + b.lin if a.lin is not None and b.lin is not None and not fl else None
            lo, hi = iv_add(A, B)
            return st, AVal(lin=lin, lo=lo, hi=hi, kind="float" if fl else "int", taint=taint)
        if isinstance(op, ast.Sub):
            lin = a.lin - b.lin if a.lin is not None and b.lin is not None and not fl else None
            lo, hi = iv_sub(A, B)
            return st, AVal(lin=lin, lo=lo, hi=hi, kind="float" if fl else "int", taint=taint)
        if isinstance(op, ast.Mult):
            lin = None
            if not fl:
                if a.lin is not None and b.lin is not None and b.lin.is_const():
                    lin = a.lin.scale(b.lin.c)
                elif a.lin is not None and b.lin is not None and a.lin.is_const():
                    lin = b.lin.scale(a.lin.c)
            lo, hi = iv_mul(A, B)
            return st, AVal(lin=lin, lo=lo, hi=hi, kind="float" if fl else "int", taint=taint)
        if isinstance(op, (ast.Div, ast.FloorDiv, ast.Mod)):
            self.div_ob(st, e, b, B)
            if isinstance(op, ast.Mod) and B[0] is not None and B[0] >= 1 and not fl:
                hi = (B[1] - 1) if B[1] is not None else None
                if A[0] is not None and A[0] >= 0 and A[1] is not None and (hi is None or A[1] < hi):
                    hi = A[1]
                r = AVal(lo=0, hi=hi, kind="int", taint=taint)
                if b.lin is not None:
                    r.ubound = b.lin.shift(-1)
                return st, r
            if isinstance(op, ast.FloorDiv) and not fl and B[0] is not None and B[0] >= 1 and A[0] is not None and A[0] >= 0:
                hi = None if A[1] is None else A[1] // B[0]
                lo = 0 if B[1] is None else A[0] // B[1]
                return st, AVal(lo=lo, hi=hi, kind="int", taint=taint)
            if isinstance(op, ast.Div):
                lo = hi = None
                if B[0] is not None and B[0] > 0 and A[0] is not None and A[0] >= 0:
                    lo = 0
                if B[0] is not None and B[0] > 0 and B[0] == B[1]:
                    # division by a positive constant: integer enclosure of the quotient's range
                    import math as _m
                    if A[1] is not None:
                        hi = _m.ceil(A[1] / B[0])
                    if A[0] is not None and lo is None:
                        lo = _m.floor(A[0] / B[0])
                return st, AVal(kind="float", lo=lo, hi=hi, taint=taint)
            return st, AVal(kind="float" if fl else "int", taint=taint)
        if isinstance(op, ast.BitAnd):
            # x & mask with non-negative constant mask
            for x, X in ((a, A), (b, B)):
                if X[0] is not None and X[0] >= 0 and X[1] is not None:
                    other = B if x is a else A
                    hi = X[1]
                    if other[0] is not None and other[0] >= 0 and other[1] is not None:
                        hi = min(hi, other[1])
                    return st, AVal(lo=0, hi=hi, kind="int", taint=taint)
            return st, AVal(kind="int", taint=taint)
        if isinstance(op, (ast.BitOr, ast.BitXor)):
            if A[0] is not None and A[0] >= 0 and B[0] is not None and B[0] >= 0 and A[1] is not None and B[1] is not None:
                bits = max(A[1].bit_length(), B[1].bit_length())
                return st, AVal(lo=0, hi=(1 << bits) - 1, kind="int", taint=taint)
            return st, AVal(kind="int", taint=taint)
        if isinstance(op, (ast.LShift, ast.RShift)):
            self.shift_ob(st, e, b, B)
            if A[0] is not None and A[0] >= 0 and B[0] is not None and B[0] >= 0:
                if isinstance(op, ast.RShift):
                    hi = None if A[1] is None else A[1] >> B[0]
                    return st, AVal(lo=0, hi=hi, kind="int", taint=taint)
                hi = None if A[1] is None or B[1] is None or B[1] > 256 else A[1] << B[1]
                return st, AVal(lo=A[0] << B[0], hi=hi, kind="int", taint=taint)
            return st, AVal(kind="int", taint=taint)
        if isinstance(op, ast.Pow):
            self.pow_ob(st, e, a, b)
            return st, AVal(kind="float" if fl else "int", taint=taint)
        return st, AVal(taint=taint)

    def pow_ob(self, st: St, e: ast.AST, a: AVal, b: AVal) -> None:
        """float ** x raises OverflowError beyond about 2**1024: the exponent has to be bounded (relative to the base)."""
        import math
        if a.kind != "float" and b.kind != "float":
            return  # integer powers do not overflow (they may be large, that is a cost question)
        fi = self.fi
        in_scope = a.taint or b.taint or fi.module.name in self.cfg.div_all_modules
        A = self.val_bounds(st, a)
        B = self.val_bounds(st, b)
        if a.const is not NOCONST and isinstance(a.const, (int, float)):
            A = (a.const, a.const)
        if b.const is not NOCONST and isinstance(b.const, (int, float)):
            B = (b.const, b.const)
        if b.const is not NOCONST and isinstance(b.const, (int, float)) and abs(b.const) <= 4:
            # squares / cubes overflow only for magnitudes beyond 1e77: not decided (DESIGN 9.5, magnitudes are not tracked)
            self.skip(e, "pow", "small constant exponent")
            return
        ok = False
        if A[0] is not None and A[1] is not None:
            m = max(abs(A[0]), abs(A[1]))
            if m <= 1 and (B[0] is not None and B[0] >= 0):
                ok = True
            elif m > 0 and B[1] is not None and B[1] * math.log2(max(m, 1.0000001)) < 1000 and (A[0] > 0 or (B[0] is not None and B[0] >= 0)):
                ok = True
        if ok:
            if in_scope:
                self.oblige(st, e, "pow", "OverflowError", True, "power bounded", by=f"base in [{A[0]},{A[1]}], exponent in [{B[0]},{B[1]}]")
            return
        if not in_scope:
            self.skip(e, "pow", "operands not derived from received data")
            return
        self.oblige(st, e, "pow", "OverflowError", False, f"the exponent of `{unparse(e)[:60]}` is not shown to be bounded: a float power overflows beyond 2**1024")

    def div_ob(self, st: St, e: ast.AST, b: AVal, B) -> None:
        if b.const is not NOCONST and b.const != 0:
            return
        fi = self.fi
        in_scope = b.taint or fi.module.name in self.cfg.div_all_modules
        nonzero = (B[0] is not None and B[0] >= 1) or (B[1] is not None and B[1] <= -1)
        if not nonzero and b.lin is not None and st.f.has_pred(("nonzero", repr(b.lin))):
            nonzero = True
        if b.kind == "float" and B[0] is not None and B[0] > 0:
            nonzero = True
        if nonzero:
            if in_scope:
                self.oblige(st, e, "div", "ZeroDivisionError", True, "divisor non-zero", by=f"divisor in [{B[0]},{B[1]}]")
            return
        if not in_scope:
            self.skip(e, "div", "divisor not derived from received data")
            return
        self.oblige(st, e, "div", "ZeroDivisionError", False, f"divisor `{unparse(e.right)}` is not shown to be non-zero")

    def shift_ob(self, st: St, e: ast.AST, b: AVal, B) -> None:
        if b.const is not NOCONST:
            if isinstance(b.const, int) and b.const < 0:
                self.oblige(st, e, "shift", "ValueError", False, "negative shift count")
            return
        if B[0] is not None and B[0] >= 0:
            if b.taint:
                self.oblige(st, e, "shift", "ValueError", True, "shift count >= 0", by=f"count in [{B[0]},{B[1]}]")
            return
        if not b.taint:
            self.skip(e, "shift", "shift count not derived from received data")
            return
        self.oblige(st, e, "shift", "ValueError", False, f"shift count `{unparse(e.right)}` may be negative")

    # ------------------------------------------------------------ subscripts
    def ev_Subscript(self, st, e):
        st, base = self.ev(st, e.value)
        kind = base.kind or self.static_kind(e.value)
        if isinstance(e.slice, ast.Slice):
            return self._slice(st, e, base, kind)
        st, idx = self.ev(st, e.slice)
        taint = base.taint or idx.taint
        n = base.length
        if kind == "dict":
            self._key_ob(st, e, base, idx)
            return st, AVal(taint=taint, kind=self.static_kind(e))
        if kind in ("bytes", "list", "tuple", "deque", "str") or (kind is None and n is not None and idx.lin is not None):
            # fixed-arity tuples
            if base.elems is not None and idx.const is not NOCONST and isinstance(idx.const, int) and -len(base.elems) <= idx.const < len(base.elems):
                v = base.elems[idx.const]
                return st, v.with_taint(taint)
            t = self.types.type_of(e.value, self.fi)
            for m in members(t):
                if m[0] == "tuple" and idx.const is not NOCONST and isinstance(idx.const, int) and -len(m[1]) <= idx.const < len(m[1]) and len(members(t)) == 1:
                    a = self.atom_of(e)
                    v = AVal(kind=self.static_kind(e), taint=taint)
                    if a is not None and v.kind in (None, "int"):
                        v.lin = Lin.atom(a)
                        v.lo, v.hi = self.lin_bounds(st, v.lin)
                    if a is not None and v.kind in SIZED_KINDS:
                        v.length = Lin.atom(f"len({a})")
                    return st, v
            ok, by = self._index_ok(st, n, idx)
            relevant = kind in ("bytes", "str") or base.taint or (idx.taint and idx.const is NOCONST) or ok
            if kind is None and not ok and not base.taint:
                relevant = False
            if ok:
                self.oblige(st, e, "index", "IndexError", True, "index within bounds", by=by)
                if n is not None and idx.lin is not None:
                    st = self._post_index(st, n, idx)
            elif relevant:
                self.oblige(st, e, "index", "IndexError", False,
                            f"index `{unparse(e.slice)}` is not shown to be within `{unparse(e.value)}` (no dominating length fact)")
                if n is not None and idx.lin is not None:
                    st = self._post_index(st, n, idx)
            else:
                self.skip(e, "index", "index/container not derived from received data")
            a = self.atom_of(e)
            if kind in ("bytes",):
                v = AVal(lo=0, hi=255, kind="int", taint=taint or True)
                v.taint = taint
                if a is not None:
                    v.lin = Lin.atom(a)
                    lo, hi = self.lin_bounds(st, v.lin)
                    v.lo = max(0, lo) if lo is not None else 0
                    v.hi = min(255, hi) if hi is not None else 255
                return st, v
            if base.elem is not None:
                return st, base.elem.with_taint(taint)
            v = AVal(kind=self.static_kind(e), taint=taint)
            if a is not None and v.kind in (None, "int"):
                v.lin = Lin.atom(a)
                v.lo, v.hi = self.lin_bounds(st, v.lin)
            if a is not None and v.kind in ("list", "tuple", "bytes", None):
                v.length = Lin.atom(f"len({a})")
            if a is not None:
                self._apply_float_preds(st, a, v)
            return st, v
        return st, AVal(taint=taint, kind=self.static_kind(e))

    def _post_index(self, st: St, n: Lin, idx: AVal) -> St:
        lo, _ = self.val_bounds(st, idx)
        if lo is not None and lo >= 0:
            f = st.f.add_ge(n - idx.lin - Lin.const(1))
            return st.with_f(f) or st
        if idx.const is not NOCONST and isinstance(idx.const, int) and idx.const < 0:
            f = st.f.add_ge(n.shift(idx.const))
            return st.with_f(f) or st
        return st

    def _index_ok(self, st: St, n: Optional[Lin], idx: AVal) -> Tuple[bool, str]:
        if n is None or idx.lin is None:
            return False, ""
        if idx.const is not NOCONST and isinstance(idx.const, int) and idx.const < 0:
            if st.f.entails_ge(n.shift(idx.const)):
                return True, f"len >= {-idx.const}"
            return False, ""
        lo, _ = self.val_bounds(st, idx)
        if (lo is not None and lo >= 0) or st.f.entails_ge(idx.lin):
            if st.f.entails_ge(n - idx.lin - Lin.const(1)):
                return True, f"{n} > {idx.lin}"
        return False, ""

    def _key_ob(self, st: St, e: ast.Subscript, base: AVal, idx: AVal) -> None:
        d = self.atom_of(e.value)
        k = self.atom_of(e.slice)
        if k is None and idx.const is not NOCONST:
            k = repr(idx.const)
        if d is not None and k is not None and st.f.has_pred(("in", k, d)):
            self.oblige(st, e, "key", "KeyError", True, "key present", by=f"{k} in {d}")
            return
        if not idx.taint:
            self.skip(e, "key", "key not derived from received data")
            return
        self.oblige(st, e, "key", "KeyError", False, f"key `{unparse(e.slice)}` (from received data) is not shown to be in `{unparse(e.value)}`")

    def _slice(self, st: St, e: ast.Subscript, base: AVal, kind: Optional[str]):
        sl = e.slice
        lo_v = hi_v = None
        if sl.lower is not None:
            st, lo_v = self.ev(st, sl.lower)
        if sl.upper is not None:
            st, hi_v = self.ev(st, sl.upper)
        if sl.step is not None:
            st, _ = self.ev(st, sl.step)
            return st, AVal(kind=kind, taint=base.taint)
        n = base.length
        length: Optional[Lin] = None
        f = st.f
        L = lo_v.lin if lo_v is not None else Lin.const(0)
        if n is not None and L is not None:
            l_nonneg = f.entails_ge(L)
            if sl.upper is None:
                if l_nonneg and f.entails_ge(n - L):
                    length = n - L
                elif lo_v is not None and lo_v.const is not NOCONST and isinstance(lo_v.const, int) and lo_v.const < 0 and f.entails_ge(n.shift(lo_v.const)):
                    length = Lin.const(-lo_v.const)
            elif hi_v is not None and hi_v.lin is not None:
                U = hi_v.lin
                if l_nonneg and f.entails_ge(U - L):
                    if f.entails_ge(n - U):
                        length = U - L
        v = AVal(kind=kind, length=length, taint=base.taint or (lo_v is not None and lo_v.taint) or (hi_v is not None and hi_v.taint))
        v.elem = base.elem
        # remember an upper bound on the slice length for later (len(S) <= U - L) via src
        return st, v
