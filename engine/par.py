"""Fork-based parallel map for evaluations that share a large read-only state (the indexed program).

The callable and the state are placed in a module global before the pool is created, so forked workers see them without pickling; only the item index goes to the
worker and only the (plain-data) result comes back.  Falls back to a serial loop when fork is unavailable or one job is asked for.
"""
from __future__ import annotations

import gc
import multiprocessing
import os
from typing import Any, Callable, List, Sequence

_FN: Callable[[Any], Any] = None
_ITEMS: Sequence[Any] = ()


def _call(i: int) -> Any:
    return _FN(_ITEMS[i])


def pmap(fn: Callable[[Any], Any], items: Sequence[Any], jobs: int = 0) -> List[Any]:
    global _FN, _ITEMS
    # serial unless asked otherwise: in this sandbox forked workers that churn memory run slower in total than one process (page-fault cost under contention)
    jobs = jobs or int(os.environ.get("VERIF_JOBS", 0)) or 1
    if jobs <= 1 or len(items) < 4 or os.environ.get("VERIF_SERIAL"):
        return [fn(x) for x in items]
    _FN, _ITEMS = fn, items
    # the indexed program is a large heap of small objects: keep the collector from touching (and so copying) every page of it in each forked worker
    gc.collect()
    gc.freeze()
    try:
        ctx = multiprocessing.get_context("fork")
        with ctx.Pool(min(jobs, len(items)), initializer=gc.disable) as pool:
            return pool.map(_call, range(len(items)), chunksize=1)
    finally:
        gc.unfreeze()
        _FN, _ITEMS = None, ()
