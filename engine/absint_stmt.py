"""Statements, condition refinement and loop hooks for the facts domain (mix-in of Absint)."""
from __future__ import annotations

import ast
from typing import Any, Dict, List, Optional, Tuple

from .aval import AVal, NOCONST, St, st_join
from .index import unparse
from .lin import Lin, atom_deps
from .types import members

MUTATORS = {"append", "appendleft", "add", "pop", "popleft", "clear", "discard", "remove", "extend", "insert",
            "update", "sort", "reverse", "setdefault", "popitem", "put", "put_nowait", "get_nowait"}


class StmtMixin:
    # ------------------------------------------------------------ simple statements
    def stmt(self, st: St, s: ast.stmt) -> Optional[St]:
        if isinstance(s, ast.Expr):
            st, _ = self.ev(st, s.value)
            return st
        if isinstance(s, ast.Assign):
            st, v = self.ev(st, s.value)
            for t in s.targets:
                st = self.assign(st, t, v, s.value)
            return st
        if isinstance(s, ast.AnnAssign):
            if s.value is None:
                return st
            st, v = self.ev(st, s.value)
            return self.assign(st, s.target, v, s.value)
        if isinstance(s, ast.AugAssign):
            return self.aug_assign(st, s)
        if isinstance(s, ast.Delete):
            for t in s.targets:
                if isinstance(t, ast.Name):
                    st = self.kill_names(st, [t.id])
                    st = St(st.f, st.defd - {t.id}, st.taint)
                elif isinstance(t, ast.Subscript):
                    st, _ = self.ev(st, t.value)
                    st = self.mutated(st, t.value)
            return st
        return st

    def mutated(self, st: St, container: ast.expr) -> St:
        """The object denoted by `container` was mutated in place."""
        if isinstance(container, ast.Name):
            return self.kill_names(st, [container.id])
        if isinstance(container, ast.Attribute):
            return self.kill_heap(st, [container.attr])
        if isinstance(container, ast.Subscript):
            return self.mutated(st, container.value)
        return self.kill_heap(st)

    def assign(self, st: St, t: ast.AST, v: AVal, value_node: Optional[ast.expr]) -> St:
        if isinstance(t, ast.Name):
            return self.assign_name(st, t.id, v, value_node)
        if isinstance(t, (ast.Tuple, ast.List)):
            elems = v.elems if v.elems is not None and len(v.elems) == len(t.elts) and not any(isinstance(x, ast.Starred) for x in t.elts) else None
            # arity obligation for unpacking wire-derived sequences of unknown arity is out of scope
            for i, el in enumerate(t.elts):
                if isinstance(el, ast.Starred):
                    st = self.assign(st, el.value, AVal(kind="list", taint=v.taint), None)
                    continue
                ev = elems[i] if elems is not None else (v.elem.with_taint(v.taint) if v.elem is not None and v.elem.elems is None else AVal(taint=v.taint))
                if elems is None and v.elem is not None and v.elem.elems is not None:
                    ev = AVal(taint=v.taint)
                st = self.assign(st, el, ev, None)
            return st
        if isinstance(t, ast.Attribute):
            st, base = self.ev(st, t.value)
            st = self.kill_heap(st, [t.attr])
            if v.taint and not self.__dict__.get("_quiet", 0):
                if t.attr not in self.tainted_attrs:
                    self.tainted_attrs.add(t.attr)
                    self.tainted_attrs_grew = True
            if (v.elem is not None or v.elems is not None) and not self.__dict__.get("_quiet", 0):
                self.note_attr_val(t.attr, v)
            if self.cfg.guard_implies and self.fi.cls is not None and isinstance(t.value, ast.Name):
                for c, g, imp in self.cfg.guard_implies:
                    if g == t.attr and any(x.qualname == c for x in self.prog.mro(self.fi.cls)):
                        falsy = v.const is not NOCONST and not v.const
                        if not falsy:
                            ok = st.f.has_pred(("notnone", f"{t.value.id}.{imp}"))
                            self.oblige(st, t, "guard", "TypeError", ok,
                                        f"`{t.value.id}.{g}` is set while `{t.value.id}.{imp}` may still be None; readers of "
                                        f"`{g}` rely on it implying `{imp}` is not None",
                                        by=f"{t.value.id}.{imp} is not None here")
            a = self.atom_of(t)
            # aliasing an object: facts about the source's attributes also hold for the new path
            if a is not None and value_node is not None:
                src = self.atom_of(value_node)
                if src is not None and src != a:
                    st = self._copy_facts(st, src, a)
            if a is not None:
                f = st.f
                if v.kind == "none" or v.const is None:
                    f = f.add_pred(("none", a))
                elif not v.maybe_none and (v.kind is not None or v.lin is not None or v.length is not None):
                    f = f.add_pred(("notnone", a))
                # numeric equality / bounds
                if v.lin is not None and a not in " ".join(v.lin.atoms()):
                    f2 = f.add_eq(Lin.atom(a) - v.lin)
                    f = f2 if f2 is not None else f
                elif v.lo is not None or v.hi is not None:
                    if v.lo is not None:
                        f2 = f.add_ge(Lin.atom(a).shift(-v.lo)); f = f2 if f2 is not None else f
                    if v.hi is not None:
                        f2 = f.add_ge((-Lin.atom(a)).shift(v.hi)); f = f2 if f2 is not None else f
                if v.length is not None:
                    f2 = f.add_eq(Lin.atom(f"len({a})") - v.length)
                    f = f2 if f2 is not None else f
                f = self._float_preds(f, a, v)
                f = self._elem_len_facts(f, a, v)
                st = st.with_f(f) or st
            return st
        if isinstance(t, ast.Subscript):
            st, base = self.ev(st, t.value)
            if not isinstance(t.slice, ast.Slice):
                st, idx = self.ev(st, t.slice)
                kind = base.kind or self.static_kind(t.value)
                if kind in ("list", "deque", "bytes"):
                    ok, by = self._index_ok(st, base.length, idx)
                    if ok:
                        self.oblige(st, t, "index", "IndexError", True, "store index within bounds", by=by)
                    elif idx.taint and idx.const is NOCONST:
                        self.oblige(st, t, "index", "IndexError", False,
                                    f"store index `{unparse(t.slice)}` (from received data) not shown within bounds")
                    else:
                        self.skip(t, "index", "store index not derived from received data")
                    # element store does not change the length
                    return st
                st = self.mutated(st, t.value)
                d = self.atom_of(t.value)
                k = self.atom_of(t.slice)
                if k is None and idx.const is not NOCONST:
                    k = repr(idx.const)
                if d is not None and k is not None and kind in ("dict", None):
                    st = st.with_f(st.f.add_pred(("in", k, d))) or st
                return st
            return self.mutated(st, t.value)
        if isinstance(t, ast.Starred):
            return self.assign(st, t.value, v, None)
        return st

    def note_attr_val(self, attr: str, v: AVal) -> None:
        old = self.attr_vals.get(attr)
        shape = AVal(kind=v.kind, elems=v.elems, elem=v.elem, taint=v.taint)
        if old is None:
            self.attr_vals[attr] = shape
        else:
            j = self.join_vals(old, shape)
            if j is not None:
                if j.elem is None:
                    j.elem = old.elem or shape.elem
                self.attr_vals[attr] = j

    def _elem_len_facts(self, f, a: str, v: AVal):
        if v.elems is not None and v.kind in ("list", "tuple") and len(v.elems) <= 8:
            for i, x in enumerate(v.elems):
                if x.length is not None and x.length.is_const() and x.kind in ("list", "tuple", "bytes"):
                    f2 = f.add_eq(Lin.atom(f"len({a}[{i}])") - x.length)
                    f = f2 if f2 is not None else f
        return f

    def _float_preds(self, f, a: str, v: AVal):
        if v.kind == "float" or isinstance(v.lo, float) or isinstance(v.hi, float) or (v.kind is None and v.lin is None):
            lo, hi = v.lo, v.hi
            if v.const is not NOCONST and isinstance(v.const, (int, float)) and not isinstance(v.const, bool):
                lo = hi = v.const
            if lo is not None:
                f = f.add_pred(("flo", a, lo))
            if hi is not None:
                f = f.add_pred(("fhi", a, hi))
        elif v.kind in ("int", "bool") and v.const is not NOCONST and isinstance(v.const, int):
            # ints stored into float-typed fields (self.var_noise = 1)
            f = f.add_pred(("flo", a, int(v.const))).add_pred(("fhi", a, int(v.const)))
        return f

    def _copy_facts(self, st: St, src: str, dst: str) -> St:
        f = st.f

        def m(a: str):
            if a.startswith(src + ".") or a.startswith(src + "["):
                return dst + a[len(src):]
            if a.startswith("len(" + src + ".") or a.startswith("len(" + src + "["):
                return "len(" + dst + a[4 + len(src):]
            return None

        def mp(a: str):
            r = m(a)
            return r if r is not None else a

        for G in list(f.ge):
            if any(m(a) for a in G.atoms()):
                r = G.rename(mp)
                if r is not None:
                    f2 = f.add_ge(r); f = f2 if f2 is not None else f
        for E in list(f.eq):
            if any(m(a) for a in E.atoms()):
                r = E.rename(mp)
                if r is not None:
                    f2 = f.add_eq(r); f = f2 if f2 is not None else f
        for p in list(f.preds):
            if p[0] in ("none", "notnone", "truthy") and isinstance(p[1], str) and m(p[1]):
                f = f.add_pred((p[0], m(p[1])))
        return st.with_f(f) or st

    def assign_name(self, st: St, name: str, v: AVal, value_node: Optional[ast.expr]) -> St:
        f = st.f
        # rewrite instead of kill for x = x + c
        selfref = v.lin is not None and name in v.lin.atoms()
        if selfref and v.lin.coef(name) == 1:
            delta = v.lin - Lin.atom(name)
            if name not in " ".join(delta.atoms()):
                f = f.subst_atom(name, Lin.atom(name) - delta)
                # other atoms depending on name (len(name), name.attr ...) die
                f = _kill_dependents(f, name)
                st = St(f, st.defd | {name}, st.taint | ({name} if v.taint else set()))
                return st
        if v.length is not None and any(name in atom_deps(a)[0] for a in v.length.atoms()):
            red = f.reduce(v.length)
            v = v.copy()
            v.length = red if not any(name in atom_deps(a)[0] for a in red.atoms()) else None
        if selfref:
            red = f.reduce(v.lin)
            v = v.copy()
            if not any(name in atom_deps(a)[0] for a in red.atoms()):
                v.lin = red
                selfref = False
            else:
                lo, hi = self.val_bounds(st, v)
                v.lo, v.hi = lo, hi
        f = f.kill(names=[name])
        st = St(f, st.defd | {name}, (st.taint | {name}) if v.taint else (st.taint - {name}))
        f = st.f
        if v.kind == "none" or (v.const is None):
            f = f.add_pred(("none", name))
        elif not v.maybe_none and (v.kind not in (None,) or v.lin is not None):
            f = f.add_pred(("notnone", name))
        if v.lin is not None and not selfref and v.kind in (None, "int", "bool"):
            f2 = f.add_eq(Lin.atom(name) - v.lin)
            f = f2 if f2 is not None else f
        if v.kind in (None, "int", "bool", "float") and (v.lin is None or selfref):
            if v.lo is not None:
                f2 = f.add_ge(Lin.atom(name).shift(-v.lo)); f = f2 if f2 is not None else f
            if v.hi is not None:
                f2 = f.add_ge((-Lin.atom(name)).shift(v.hi)); f = f2 if f2 is not None else f
        elif v.lin is not None and v.kind in (None, "int", "bool"):
            # also keep constant bounds that do not follow from the linear form itself
            lo0, hi0 = self.lin_bounds(st, v.lin)
            if v.lo is not None and (lo0 is None or v.lo > lo0):
                f2 = f.add_ge(Lin.atom(name).shift(-v.lo)); f = f2 if f2 is not None else f
            if v.hi is not None and (hi0 is None or v.hi < hi0):
                f2 = f.add_ge((-Lin.atom(name)).shift(v.hi)); f = f2 if f2 is not None else f
        if v.length is not None and f"len({name})" not in v.length.atoms():
            f2 = f.add_eq(Lin.atom(f"len({name})") - v.length)
            f = f2 if f2 is not None else f
        if v.ubound is not None and not any(name in atom_deps(a)[0] for a in v.ubound.atoms()):
            f2 = f.add_ge(v.ubound - Lin.atom(name))
            f = f2 if f2 is not None else f
        # aliasing of heap containers: x = self.q  ->  len(x) == len(self.q) handled by length above
        vals = self.__dict__.setdefault("_name_vals", {})
        vals[(self.ctx, self.fi.qualname, name)] = v
        f = self._float_preds(f, name, v)
        f = self._elem_len_facts(f, name, v)
        fields = getattr(v, "fields", None)
        if fields:
            for fname, fv in fields.items():
                if fv.const is not NOCONST and isinstance(fv.const, (int, bool)):
                    f2 = f.add_eq(Lin.atom(f"{name}.{fname}").shift(-int(fv.const)))
                    f = f2 if f2 is not None else f
                elif fv.const is None and fv.kind == "none":
                    f = f.add_pred(("none", f"{name}.{fname}"))
        if value_node is not None:
            src = self.atom_of(value_node)
            if src is not None and src != name:
                st2 = self._copy_facts(st.with_f(f) or st, src, name)
                return st2
        return st.with_f(f) or st

    def name_val(self, name: str) -> Optional[AVal]:
        return self.__dict__.get("_name_vals", {}).get((self.ctx, self.fi.qualname, name))

    def aug_assign(self, st: St, s: ast.AugAssign) -> St:
        load = _as_load(s.target)
        node = ast.BinOp(left=load, op=s.op, right=s.value)
        ast.copy_location(node, s)
        ast.fix_missing_locations(node)
        # evaluate as a binary operation; obligations are keyed on the AugAssign node
        saved = self.__dict__.get("_alias_node")
        self._alias_node = (node, s)
        try:
            st, v = self.ev_BinOp(st, node)
        finally:
            self._alias_node = saved
        if isinstance(s.target, ast.Name):
            kind = self.static_kind(load)
            if kind in ("bytes", "str", "list") or v.kind in ("bytes", "str", "list"):
                # data += chunk : length grows
                name = s.target.id
                f = st.f
                if v.length is not None and f"len({name})" in v.length.atoms() and v.length.coef(f"len({name})") == 1:
                    delta = v.length - Lin.atom(f"len({name})")
                    if not any(name == d or d.startswith(name + ".") or d.startswith(name + "[") for d in delta.atoms()) and f"len({name})" not in delta.atoms():
                        f = f.subst_atom(f"len({name})", Lin.atom(f"len({name})") - delta)
                        return St(f, st.defd | {name}, st.taint | ({name} if v.taint else set()))
                f = f.kill(names=[name])
                return St(f, st.defd | {name}, st.taint | ({name} if v.taint else set()))
            if v.lin is None and isinstance(s.op, (ast.Add, ast.Sub)) and v.kind in (None, "int"):
                # x += e with e non-linear but bounded: x := x + t for a fresh ghost t in e's interval
                saved_q = self.__dict__.get("_quiet", 0)
                self._quiet = saved_q + 1
                try:
                    _, rv = self.ev(st, s.value)
                finally:
                    self._quiet = saved_q
                lo, hi = self.val_bounds(st, rv)
                if lo is not None or hi is not None:
                    name = s.target.id
                    g = self.fresh_ghost(s, "t")
                    f = st.f.kill(names=[g])
                    if lo is not None:
                        f2 = f.add_ge(Lin.atom(g).shift(-lo)); f = f2 if f2 is not None else f
                    if hi is not None:
                        f2 = f.add_ge((-Lin.atom(g)).shift(hi)); f = f2 if f2 is not None else f
                    delta = Lin.atom(g) if isinstance(s.op, ast.Add) else -Lin.atom(g)
                    f = f.subst_atom(name, Lin.atom(name) - delta)
                    f = _kill_dependents(f, name)
                    return St(f, st.defd | {name}, st.taint | ({name} if v.taint else set()))
            return self.assign_name(st, s.target.id, v, None)
        if isinstance(s.target, ast.Attribute):
            a = self.atom_of(s.target)
            if a is not None and v.lin is not None and v.lin.coef(a) == 1:
                delta = v.lin - Lin.atom(a)
                if a not in delta.atoms():
                    f = st.f.subst_atom(a, Lin.atom(a) - delta)
                    f = _kill_dependents(f, a)
                    return st.with_f(f) or st
            return self.assign(st, s.target, v, None)
        return self.assign(st, s.target, v, None)

    # ------------------------------------------------------------ refinement
    def refine(self, st: St, test: ast.expr, truth: bool) -> Optional[St]:
        f = st.f
        if isinstance(test, ast.Constant):
            return st if bool(test.value) == truth else None
        if isinstance(test, ast.Compare) and len(test.ops) == 1:
            return self._refine_cmp(st, test.left, test.ops[0], test.comparators[0], truth)
        if isinstance(test, ast.Compare):
            # a < b < c : refine pairwise on the true branch only
            if truth:
                left = test.left
                for op, c in zip(test.ops, test.comparators):
                    st = self._refine_cmp(st, left, op, c, True)
                    if st is None:
                        return None
                    left = c
            return st
        if isinstance(test, ast.Call) and isinstance(test.func, ast.Name) and test.func.id == "isinstance" and len(test.args) == 2:
            a = self.atom_of(test.args[0])
            if a is not None:
                names = tuple(sorted(self.exc.name_of(test.args[1], self.fi.module)))
                if truth:
                    return st.with_f(f.add_pred(("isinst", a, names)).add_pred(("notnone", a)))
            return st
        if isinstance(test, ast.Call) and isinstance(test.func, ast.Name) and test.func.id == "len" and len(test.args) == 1:
            la = self.len_atom(test.args[0])
            if la is not None:
                L = Lin.atom(la)
                return st.with_f(f.add_ge(L.shift(-1)) if truth else f.add_eq(L))
            return st
        # truthiness of a name/attribute/subscript atom
        a = self.atom_of(test)
        if a is not None:
            cv = self._val_of(st, test)
            if cv.const is not NOCONST and isinstance(cv.const, (int, str, bytes, bool, float, type(None), tuple)):
                return st if bool(cv.const) == truth else None
            if f.has_pred(("none", a)):
                return None if truth else st
            kind = self.static_kind(test)
            v = self.name_val(a) if isinstance(test, ast.Name) else None
            if kind is None and v is not None:
                kind = v.kind
            if truth:
                if kind in ("int", "bool") and f.entails_eq(Lin.atom(a)):
                    return None
                f2 = f.add_pred(("notnone", a)).add_pred(("truthy", a))
                if isinstance(test, ast.Attribute) and isinstance(test.value, ast.Name) and self.fi.cls is not None:
                    for c, g, imp in self.cfg.guard_implies:
                        if g == test.attr and any(x.qualname == c for x in self.prog.mro(self.fi.cls)):
                            f2 = f2.add_pred(("notnone", f"{test.value.id}.{imp}"))
                if kind in ("bytes", "str", "list", "deque", "set", "dict", "tuple"):
                    f2 = f2.add_ge(Lin.atom(f"len({a})").shift(-1)) if f2 is not None else None
                elif kind in ("int",):
                    f2 = f2.add_pred(("nonzero", repr(Lin.atom(a))))
                return st.with_f(f2)
            else:
                t = self.types.type_of(test, self.fi)
                optional = self._is_optional(test)
                if kind in ("obj",) or (t is not None and all(m[0] in ("inst", "ext", "none") for m in members(t))):
                    # instances of ordinary classes / external objects are always truthy: falsy means None
                    if f.has_pred(("notnone", a)):
                        return None
                    return st.with_f(f.add_pred(("none", a)))
                if kind in ("bytes", "str", "list", "deque", "set", "dict", "tuple") and not optional:
                    return st.with_f(f.add_eq(Lin.atom(f"len({a})")))
                if kind in ("int",) and not optional:
                    return st.with_f(f.add_eq(Lin.atom(a)))
                return st
        if isinstance(test, ast.BinOp) and isinstance(test.op, ast.Mod):
            # `if len(data) % 4:` truthiness of a remainder
            lv = self._lin_of(st, test.left)
            k = self.prog.try_const(test.right, self.fi.module, self.fi.cls)
            if lv is not None and isinstance(k, int) and k > 0:
                if not truth:
                    return st.with_f(f.add_pred(("mod", lv, k, 0)))
            return st
        if isinstance(test, ast.BinOp) and isinstance(test.op, ast.BitAnd):
            return st
        return st

    def _is_optional(self, e: ast.expr) -> bool:
        """Could this expression be None according to annotations / None-initialisation?"""
        fi = self.fi
        if isinstance(e, ast.Name):
            ann = fi.param_annotation(e.id)
            if ann is not None:
                s = unparse(ann)
                return "Optional" in s or "None" in s
            v = self.name_val(e.id)
            if v is not None and not v.maybe_none and v.kind not in (None, "none"):
                return False
            return True
        return True

    def _lin_of(self, st: St, e: ast.expr) -> Optional[Lin]:
        """Linear form of an int expression without recording obligations."""
        saved = self.__dict__.get("_quiet", 0)
        self._quiet = saved + 1
        try:
            _, v = self.ev(st, e)
        finally:
            self._quiet = saved
        return v.lin

    def _val_of(self, st: St, e: ast.expr) -> AVal:
        saved = self.__dict__.get("_quiet", 0)
        self._quiet = saved + 1
        try:
            _, v = self.ev(st, e)
        finally:
            self._quiet = saved
        return v

    def _refine_cmp(self, st: St, left: ast.expr, op: ast.cmpop, right: ast.expr, truth: bool) -> Optional[St]:
        f = st.f
        if isinstance(op, (ast.Is, ast.IsNot)):
            is_none = isinstance(right, ast.Constant) and right.value is None
            a = self.atom_of(left)
            if is_none and a is not None:
                want_none = isinstance(op, ast.Is) == truth
                if want_none:
                    if f.has_pred(("notnone", a)):
                        return None
                    return st.with_f(f.add_pred(("none", a)))
                if f.has_pred(("none", a)):
                    return None
                return st.with_f(f.add_pred(("notnone", a)))
            return st
        if isinstance(op, (ast.In, ast.NotIn)):
            k = self.atom_of(left)
            if k is None:
                c = self.prog.try_const(left, self.fi.module, self.fi.cls, default=NOCONST)
                k = repr(c) if c is not NOCONST else None
            d = self.atom_of(right)
            positive = isinstance(op, ast.In) == truth
            if k is not None and d is not None:
                if positive:
                    return st.with_f(f.add_pred(("in", k, d)).add_ge(Lin.atom(f"len({d})").shift(-1)))
                return st
            # membership in a constant range / tuple: bounds
            if positive and k is not None:
                c = self.prog.try_const(right, self.fi.module, self.fi.cls)
                if isinstance(c, range) and c.step == 1 and len(c) > 0:
                    f2 = f.add_ge(Lin.atom(k).shift(-c.start))
                    f2 = f2.add_ge((-Lin.atom(k)).shift(c.stop - 1)) if f2 is not None else None
                    return st.with_f(f2)
                if isinstance(c, (tuple, list, set, frozenset)) and c and all(isinstance(x, int) for x in c):
                    f2 = f.add_ge(Lin.atom(k).shift(-min(c)))
                    f2 = f2.add_ge((-Lin.atom(k)).shift(max(c))) if f2 is not None else None
                    return st.with_f(f2)
            return st
        lv = self._val_of(st, left)
        rv = self._val_of(st, right)
        # comparisons with None constants etc.
        if isinstance(op, (ast.Eq, ast.NotEq)):
            eq = isinstance(op, ast.Eq) == truth
            if lv.lin is not None and rv.lin is not None and lv.kind in (None, "int", "bool") and rv.kind in (None, "int", "bool"):
                d = lv.lin - rv.lin
                if eq:
                    return st.with_f(f.add_eq(d))
                # d != 0: contradiction if facts force equality; tighten if at a bound
                if f.entails_eq(d):
                    return None
                f2 = f.add_pred(("nonzero", repr(d))).add_pred(("nonzero", repr(-d)))
                if f.entails_ge(d):
                    f2 = f2.add_ge(d.shift(-1))
                elif f.entails_ge(-d):
                    f2 = f2.add_ge((-d).shift(-1))
                return st.with_f(f2)
            # len(x) == c through length linear forms
            return st
        if lv.kind == "float" or rv.kind == "float" or lv.lin is None or rv.lin is None:
            kind = type(op)
            if not truth:
                kind = {ast.Lt: ast.GtE, ast.LtE: ast.Gt, ast.Gt: ast.LtE, ast.GtE: ast.Lt}.get(kind, kind)
            la, ra = self.atom_of(left), self.atom_of(right)
            llo, lhi = self.val_bounds(st, lv)
            rlo, rhi = self.val_bounds(st, rv)
            if kind in (ast.Lt, ast.LtE):
                if la is not None and rhi is not None:
                    f = f.add_pred(("fhi", la, rhi))
                if ra is not None and llo is not None:
                    f = f.add_pred(("flo", ra, llo))
            elif kind in (ast.Gt, ast.GtE):
                if la is not None and rlo is not None:
                    f = f.add_pred(("flo", la, rlo))
                if ra is not None and lhi is not None:
                    f = f.add_pred(("fhi", ra, lhi))
            return st.with_f(f)
        a, b = lv.lin, rv.lin
        kind = type(op)
        if not truth:
            kind = {ast.Lt: ast.GtE, ast.LtE: ast.Gt, ast.Gt: ast.LtE, ast.GtE: ast.Lt}[kind]
        if kind is ast.Lt:
            return st.with_f(f.add_ge(b - a - Lin.const(1)))
        if kind is ast.LtE:
            return st.with_f(f.add_ge(b - a))
        if kind is ast.Gt:
            return st.with_f(f.add_ge(a - b - Lin.const(1)))
        if kind is ast.GtE:
            return st.with_f(f.add_ge(a - b))
        return st

    # ------------------------------------------------------------ assert
    def on_assert(self, st_false: St, s: ast.Assert, interp) -> None:
        fi = self.fi
        scope = self.cfg.assert_scope
        if scope is not None and fi.qualname not in scope:
            return
        from .report import norm
        if (fi.qualname, norm(unparse(s.test))) in self.cfg.exempt_asserts:
            self.oblige(st_false, s, "assert", "AssertionError", True, "assertion exempted", by="exemption table")
            return
        tv = self._val_of(st_false, s.test)
        if not tv.taint and not self.cfg.assert_untainted:
            self.skip(s, "assert", "assertion over local state only (no operand derived from received data)")
            return
        self.oblige(st_false, s, "assert", "AssertionError", False,
                    f"`assert {unparse(s.test)}` is not entailed by the facts on this path")

    # The interpreter calls on_assert only when the false branch is reachable; record the discharged case too.
    def at_stmt(self, s: ast.stmt, st) -> None:
        for ob in self.__dict__.get("stmt_observers", ()):
            ob(s, st, self)
        if isinstance(s, ast.Assert):
            scope = self.cfg.assert_scope
            if scope is None or self.fi.qualname in scope:
                self.oblige(st, s, "assert", "AssertionError", True, "assertion entailed", by="facts refute the negation")

    # ------------------------------------------------------------ with
    def with_item(self, st: St, item: ast.withitem, s) -> Optional[St]:
        st, v = self.ev(st, item.context_expr)
        if item.optional_vars is not None:
            st = self.assign(st, item.optional_vars, AVal(), None)
        return st

    def with_exit(self, st: St, s) -> St:
        return st

    # ------------------------------------------------------------ loops
    def for_enter(self, st: St, s) -> St:
        g = self.fresh_ghost(s, "i")
        f = st.f.kill(names=[g])
        f = f.add_eq(Lin.atom(g))
        # candidate affine invariants v == v0 + c*g for variables advanced by a constant in the body
        # (true at entry because g == 0; they survive the fixpoint only if inductive)
        G = Lin.atom(g)
        for n in ast.walk(s):
            if isinstance(n, ast.AugAssign) and isinstance(n.target, ast.Name) and isinstance(n.op, (ast.Add, ast.Sub)):
                c = self.prog.try_const(n.value, self.fi.module, self.fi.cls)
                if isinstance(c, int) and not isinstance(c, bool) and c != 0:
                    if isinstance(n.op, ast.Sub):
                        c = -c
                    v = n.target.id
                    v0 = f.reduce(Lin.atom(v))
                    if v not in v0.atoms() and g not in v0.atoms():
                        f2 = f.add_eq(Lin.atom(v) - G.scale(c) - v0)
                        f = f2 if f2 is not None else f
        st = st.with_f(f) or st
        rng = self._range_args(st, s.iter)
        rec = self.loop_records.setdefault((self.ctx, id(s)), {"back": [], "node": s, "func": self.fi.qualname})
        rec["range"] = rng
        itv = self._val_of(st, s.iter)
        rec["iter_taint"] = itv.taint
        rec["tied"] = None
        rec["local_bound"] = None
        if rng is not None and isinstance(s.iter, ast.Call) and s.iter.args:
            stop_node = s.iter.args[0] if len(s.iter.args) == 1 else s.iter.args[1]
            while isinstance(stop_node, ast.BinOp) and isinstance(stop_node.op, (ast.Add, ast.Sub)) and \
                    self.prog.try_const(stop_node.right, self.fi.module, self.fi.cls) is not None:
                stop_node = stop_node.left
            if isinstance(stop_node, ast.Call) and isinstance(stop_node.func, ast.Name) and stop_node.func.id == "min" \
                    and not self.is_local("min"):
                for a in stop_node.args:
                    if not self._val_of(st, a).taint:
                        rec["local_bound"] = unparse(a)
                        break
        if rng is not None and rng[0].lin is not None and rng[1].lin is not None:
            trip = rng[1].lin - rng[0].lin
            atoms = set()
            for X in list(st.f.ge) + list(st.f.eq):
                for a in X.atoms():
                    if a.startswith("len("):
                        atoms.add(a)
            for a in sorted(atoms):
                if st.f.entails_ge(Lin.atom(a) - trip):
                    rec["tied"] = a
                    break
        return st

    def _range_args(self, st: St, it: ast.expr):
        """(start, stop, step) AVals for `range(...)` iterables, else None."""
        if isinstance(it, ast.Call) and isinstance(it.func, ast.Name) and it.func.id == "range" and not it.keywords and 1 <= len(it.args) <= 3:
            vals = [self._val_of(st, a) for a in it.args]
            if len(vals) == 1:
                return (AVal.of_const(0), vals[0], AVal.of_const(1))
            if len(vals) == 2:
                return (vals[0], vals[1], AVal.of_const(1))
            return tuple(vals)
        return None

    def for_body(self, st: St, s) -> Optional[St]:
        g = self.fresh_ghost(s, "i")
        G = Lin.atom(g)
        names = [n.id for n in ast.walk(s.target) if isinstance(n, ast.Name)]
        it = self._val_of(st, s.iter)
        rng = self._range_args(st, s.iter)
        tainted = it.taint
        f = st.f
        if rng is not None:
            start, stop, step = rng
            tainted = start.taint or stop.taint
            if step.const is not NOCONST and isinstance(step.const, int) and step.const >= 1 and start.lin is not None and stop.lin is not None:
                k = step.const
                # iteration exists: start + k*g <= stop - 1
                f2 = f.add_ge(stop.lin - start.lin - G.scale(k) - Lin.const(1))
                if f2 is None:
                    return None
                f = f2
                f = f.kill(names=names)
                if isinstance(s.target, ast.Name):
                    f2 = f.add_eq(Lin.atom(s.target.id) - start.lin - G.scale(k))
                    f = f2 if f2 is not None else f
                    # strided range over a length with matching residue: pos + k <= stop
                    if k > 1:
                        d = stop.lin - start.lin
                        for p in st.f.preds:
                            if p[0] == "mod" and p[2] % k == 0 and p[3] == 0 and isinstance(p[1], Lin):
                                diff = d - p[1]
                                if diff.is_const() and diff.c % k == 0:
                                    f2 = f.add_ge(stop.lin - Lin.atom(s.target.id) - Lin.const(k))
                                    f = f2 if f2 is not None else f
                st2 = St(f, st.defd | set(names), (st.taint | set(names)) if tainted else (st.taint - set(names)))
                return st2
            f = f.kill(names=names)
            return St(f, st.defd | set(names), (st.taint | set(names)) if tainted else (st.taint - set(names)))
        # generic iterable: bounded by its length when known
        if it.length is not None:
            f2 = f.add_ge(it.length - G - Lin.const(1))
            if f2 is None:
                return None
            f = f2
        f = f.kill(names=names)
        st2 = St(f, st.defd | set(names), (st.taint | set(names)) if tainted else (st.taint - set(names)))
        # enumerate / items / plain: bind element facts
        src = it
        tgt = s.target
        if isinstance(s.iter, ast.Call) and isinstance(s.iter.func, ast.Name) and s.iter.func.id == "enumerate" and s.iter.args \
                and isinstance(tgt, ast.Tuple) and len(tgt.elts) == 2:
            src = self._val_of(st, s.iter.args[0])
            if isinstance(tgt.elts[0], ast.Name):
                f2 = st2.f.add_eq(Lin.atom(tgt.elts[0].id) - G)
                st2 = st2.with_f(f2) or st2
            tgt = tgt.elts[1]
        st2 = self.bind_elem(st2, tgt, src)
        # iterating a heap container while mutating it is the program's business; nothing to add
        return st2

    def for_next(self, st: St, s) -> St:
        g = self.fresh_ghost(s, "i")
        # g := g + 1
        return st.with_f(st.f.subst_atom(g, Lin.atom(g) - Lin.const(1))) or st

    def for_exit(self, st: St, s) -> Optional[St]:
        g = self.fresh_ghost(s, "i")
        G = Lin.atom(g)
        rng = self._range_args(st, s.iter)
        f = st.f
        if rng is not None:
            start, stop, step = rng
            if step.const is not NOCONST and step.const == 1 and start.lin is not None and stop.lin is not None:
                # exhausted: start + g >= stop
                f2 = f.add_ge(start.lin + G - stop.lin)
                if f2 is not None:
                    f = f2
        return st.with_f(f) or st

    def while_body(self, st: St, s: ast.While) -> St:
        cur = self._cursor_of(s)
        if cur is None:
            return st
        g = self.fresh_ghost(s, "pre")
        f = st.f.kill(names=[g])
        f2 = f.add_eq(Lin.atom(cur) - Lin.atom(g))
        return st.with_f(f2 if f2 is not None else f) or st

    def while_back(self, st: Optional[St], s: ast.While, via: Optional[str]) -> Optional[St]:
        if st is None:
            return None
        cur = self._cursor_of(s)
        if cur is None:
            return st
        g = self.fresh_ghost(s, "pre")
        ok = st.f.entails_ge(Lin.atom(cur) - Lin.atom(g) - Lin.const(1))
        rec = self.loop_records.setdefault((self.ctx, id(s)), {"back": [], "node": s, "func": self.fi.qualname})
        rec["cursor"] = cur
        rec["back"].append((ok, via or "fallthrough"))
        return st.with_f(st.f.kill(names=[g]))

    def _cursor_of(self, s: ast.While) -> Optional[str]:
        """Local int cursor `c` in a loop condition of the form c < E / c <= E (possibly a conjunct)."""
        tests = [s.test]
        if isinstance(s.test, ast.BoolOp) and isinstance(s.test.op, ast.And):
            tests = list(s.test.values)
        for t in tests:
            if isinstance(t, ast.Compare) and len(t.ops) == 1:
                op = t.ops[0]
                l, r = t.left, t.comparators[0]
                if isinstance(op, (ast.Lt, ast.LtE)) and isinstance(l, ast.Name) and self.is_local(l.id):
                    return l.id
                if isinstance(op, (ast.Gt, ast.GtE)) and isinstance(r, ast.Name) and self.is_local(r.id):
                    return r.id
        return None


def _as_load(t: ast.expr) -> ast.expr:
    import copy
    n = copy.deepcopy(t)
    for x in ast.walk(n):
        if hasattr(x, "ctx"):
            x.ctx = ast.Load()
    return n


def _kill_dependents(f, name: str):
    """Kill atoms that depend on `name` other than the atom `name` itself (len(name), name.x, name[..])."""
    from .lin import Facts, atom_deps, pred_atoms

    def dead(a: str) -> bool:
        if a == name:
            return False
        dn, da = atom_deps(a)
        root = name.split(".")[0].split("[")[0]
        if "." in name or "[" in name:
            return a.startswith(name + ".") or a.startswith(name + "[") or f"({name})" in a
        return root in dn

    ge = [G for G in f.ge if not any(dead(a) for a in G.atoms())]
    eq = [E for E in f.eq if not any(dead(a) for a in E.atoms())]
    preds = [p for p in f.preds if not any(dead(a) or a == name for a in pred_atoms(p))]
    return Facts(ge, eq, preds)
