"""Program index: modules, classes, functions, constants, imports of /repo/src/aiortc.

Everything is computed from the source text parsed with ``ast`` on every run;
aiortc is never imported or executed.
"""
from __future__ import annotations

import ast
import hashlib
import os
from dataclasses import dataclass, field
from typing import Any, Dict, Iterator, List, Optional, Tuple

REPO = os.environ.get("VERIF_REPO", "/repo")
SRC_ROOT = os.path.join(REPO, "src", "aiortc")


class AnalysisError(Exception):
    """The checker itself cannot decide (anchor vanished, unsupported construct...)."""


class Unknown(Exception):
    """Constant folding failed."""


@dataclass
class Module:
    name: str  # e.g. "rtp", "codecs.h264", "codecs" (package __init__)
    path: str
    source: str
    tree: ast.Module
    is_package: bool = False
    # name -> ("module", modname) | ("symbol", modname, symbol) | ("ext", dotted)
    imports: Dict[str, Tuple] = field(default_factory=dict)
    assigns: Dict[str, ast.expr] = field(default_factory=dict)  # module-level NAME = expr
    ann: Dict[str, ast.expr] = field(default_factory=dict)

    @property
    def relpath(self) -> str:
        return os.path.relpath(self.path, REPO)


@dataclass
class ClassInfo:
    name: str
    qualname: str  # "rtp.RtpPacket"
    module: Module
    node: ast.ClassDef
    base_exprs: List[ast.expr]
    outer: Optional["ClassInfo"] = None
    methods: Dict[str, "FuncInfo"] = field(default_factory=dict)
    attrs: Dict[str, ast.expr] = field(default_factory=dict)  # class-level NAME = expr
    ann: Dict[str, ast.expr] = field(default_factory=dict)  # class-level annotations (dataclass fields)
    is_dataclass: bool = False
    inner: Dict[str, "ClassInfo"] = field(default_factory=dict)


@dataclass
class FuncInfo:
    name: str
    qualname: str  # "rtp.RtpPacket.parse" / "rtp.padl" / "a.b.<locals>.f"
    module: Module
    node: ast.AST  # FunctionDef | AsyncFunctionDef | Lambda
    cls: Optional[ClassInfo] = None
    parent: Optional["FuncInfo"] = None
    kind: str = "function"  # function | method | classmethod | staticmethod | property | setter
    children: Dict[str, "FuncInfo"] = field(default_factory=dict)

    @property
    def is_async(self) -> bool:
        return isinstance(self.node, ast.AsyncFunctionDef)

    @property
    def params(self) -> List[str]:
        a = self.node.args
        return [x.arg for x in a.posonlyargs + a.args] + ([a.vararg.arg] if a.vararg else []) + [
            x.arg for x in a.kwonlyargs
        ] + ([a.kwarg.arg] if a.kwarg else [])

    @property
    def pos_params(self) -> List[ast.arg]:
        a = self.node.args
        return list(a.posonlyargs + a.args)

    def param_annotation(self, name: str) -> Optional[ast.expr]:
        a = self.node.args
        for x in a.posonlyargs + a.args + a.kwonlyargs:
            if x.arg == name:
                return x.annotation
        return None

    @property
    def lineno(self) -> int:
        return getattr(self.node, "lineno", 0)

    def __hash__(self) -> int:
        return hash(self.qualname)

    def __eq__(self, other: object) -> bool:
        return isinstance(other, FuncInfo) and other.qualname == self.qualname


def mangle(cls_name: Optional[str], attr: str) -> str:
    """Apply Python private-name mangling for ``__x`` inside class ``cls_name``."""
    if cls_name and attr.startswith("__") and not attr.endswith("__"):
        return "_" + cls_name.lstrip("_") + attr
    return attr


class Program:
    def __init__(self, src_root: str = None, sources: Dict[str, str] = None) -> None:
        """Parse all modules below src_root. ``sources`` optionally overrides file
        contents (relative module path -> text); used by the self-validation corpus
        to analyse AST-edited variants without touching /repo."""
        self.src_root = src_root or SRC_ROOT
        self.modules: Dict[str, Module] = {}
        self.classes: Dict[str, ClassInfo] = {}
        self.functions: Dict[str, FuncInfo] = {}
        self.func_of_node: Dict[int, FuncInfo] = {}
        self._const_cache: Dict[Tuple[str, str], Any] = {}
        self.digest = ""
        self._load(sources or {})

    # ------------------------------------------------------------------ loading
    def _load(self, overrides: Dict[str, str]) -> None:
        if not os.path.isdir(self.src_root):
            raise AnalysisError(f"source root {self.src_root} not found")
        h = hashlib.sha256()
        files = []
        for d, dirs, fs in os.walk(self.src_root):
            dirs.sort()
            for f in sorted(fs):
                if f.endswith(".py"):
                    files.append(os.path.join(d, f))
        for path in files:
            rel = os.path.relpath(path, self.src_root)
            parts = rel[:-3].split(os.sep)
            is_pkg = parts[-1] == "__init__"
            if is_pkg:
                parts = parts[:-1]
            name = ".".join(parts) if parts else "__init__"
            if rel in overrides:
                source = overrides[rel]
            else:
                with open(path, encoding="utf8") as fh:
                    source = fh.read()
            h.update(rel.encode() + b"\0" + source.encode() + b"\0")
            try:
                tree = ast.parse(source, filename=path)
            except SyntaxError as e:
                raise AnalysisError(f"cannot parse {path}: {e}")
            m = Module(name=name, path=path, source=source, tree=tree, is_package=is_pkg)
            self.modules[name] = m
        self.digest = h.hexdigest()
        for m in self.modules.values():
            self._index_module(m)

    def _resolve_relative(self, m: Module, level: int, modname: Optional[str]) -> Optional[str]:
        pkg = m.name.split(".") if m.name != "__init__" else []
        if not m.is_package and pkg:
            pkg = pkg[:-1]
        if level > 1:
            pkg = pkg[: len(pkg) - (level - 1)]
        full = pkg + (modname.split(".") if modname else [])
        return ".".join(full) if full else "__init__"

    def _index_module(self, m: Module) -> None:
        for node in m.tree.body:
            if isinstance(node, ast.ImportFrom):
                if node.level > 0:
                    base = self._resolve_relative(m, node.level, node.module)
                    for al in node.names:
                        asname = al.asname or al.name
                        sub = (base + "." + al.name) if base != "__init__" else al.name
                        if sub in self.modules:
                            m.imports[asname] = ("module", sub)
                        else:
                            m.imports[asname] = ("symbol", base, al.name)
                elif node.module and (node.module == "aiortc" or node.module.startswith("aiortc.")):
                    base = node.module[len("aiortc") :].lstrip(".") or "__init__"
                    for al in node.names:
                        asname = al.asname or al.name
                        sub = (base + "." + al.name) if base != "__init__" else al.name
                        if sub in self.modules:
                            m.imports[asname] = ("module", sub)
                        else:
                            m.imports[asname] = ("symbol", base, al.name)
                else:
                    for al in node.names:
                        m.imports[al.asname or al.name] = ("ext", f"{node.module}.{al.name}")
            elif isinstance(node, ast.Import):
                for al in node.names:
                    m.imports[(al.asname or al.name).split(".")[0]] = ("ext", al.name)
            elif isinstance(node, ast.Assign):
                for t in node.targets:
                    if isinstance(t, ast.Name):
                        m.assigns[t.id] = node.value
            elif isinstance(node, ast.AnnAssign) and isinstance(node.target, ast.Name):
                m.ann[node.target.id] = node.annotation
                if node.value is not None:
                    m.assigns[node.target.id] = node.value
            elif isinstance(node, ast.ClassDef):
                self._index_class(m, node, None)
            elif isinstance(node, (ast.FunctionDef, ast.AsyncFunctionDef)):
                self._index_func(m, node, None, None)

    def _index_class(self, m: Module, node: ast.ClassDef, outer: Optional[ClassInfo]) -> None:
        qn = (outer.qualname + "." + node.name) if outer else f"{m.name}.{node.name}"
        ci = ClassInfo(name=node.name, qualname=qn, module=m, node=node, base_exprs=list(node.bases), outer=outer)
        for d in node.decorator_list:
            dn = d.func if isinstance(d, ast.Call) else d
            if isinstance(dn, ast.Name) and dn.id == "dataclass":
                ci.is_dataclass = True
        self.classes[qn] = ci
        if outer:
            outer.inner[node.name] = ci
        for b in node.body:
            if isinstance(b, ast.Assign):
                for t in b.targets:
                    if isinstance(t, ast.Name):
                        ci.attrs[t.id] = b.value
            elif isinstance(b, ast.AnnAssign) and isinstance(b.target, ast.Name):
                ci.ann[b.target.id] = b.annotation
                if b.value is not None:
                    ci.attrs[b.target.id] = b.value
            elif isinstance(b, (ast.FunctionDef, ast.AsyncFunctionDef)):
                self._index_func(m, b, ci, None)
            elif isinstance(b, ast.ClassDef):
                self._index_class(m, b, ci)

    def _index_func(self, m: Module, node, cls: Optional[ClassInfo], parent: Optional[FuncInfo]) -> FuncInfo:
        kind = "method" if cls and not parent else "function"
        for d in getattr(node, "decorator_list", []):
            if isinstance(d, ast.Name) and d.id in ("classmethod", "staticmethod", "property"):
                kind = d.id
            elif isinstance(d, ast.Attribute) and d.attr == "setter":
                kind = "setter"
        name = getattr(node, "name", "<lambda>")
        if parent:
            qn = f"{parent.qualname}.<locals>.{name}"
        elif cls:
            qn = f"{cls.qualname}.{name}"
        else:
            qn = f"{m.name}.{name}"
        if kind == "setter":
            qn += ".setter"
        if qn in self.functions:  # duplicate lambda names etc.
            i = 2
            while f"{qn}#{i}" in self.functions:
                i += 1
            qn = f"{qn}#{i}"
        fi = FuncInfo(name=name, qualname=qn, module=m, node=node, cls=cls, parent=parent, kind=kind)
        self.functions[qn] = fi
        self.func_of_node[id(node)] = fi
        if cls and not parent and kind != "setter":
            cls.methods[name] = fi
        if parent:
            parent.children[name] = fi
        # nested defs / lambdas
        body = node.body if isinstance(node.body, list) else [node.body]
        for sub in self._nested_defs(body):
            self._index_func(m, sub, cls, fi)
        return fi

    def _nested_defs(self, body: List[ast.AST]) -> Iterator[ast.AST]:
        """Directly nested function definitions and lambdas (not those nested deeper)."""
        stack = list(reversed(body))
        while stack:
            n = stack.pop()
            if isinstance(n, (ast.FunctionDef, ast.AsyncFunctionDef, ast.Lambda)):
                yield n
                continue
            if isinstance(n, ast.ClassDef):
                continue
            stack.extend(reversed(list(ast.iter_child_nodes(n))))

    # ------------------------------------------------------------------ lookup
    def func(self, qualname: str) -> FuncInfo:
        fi = self.functions.get(qualname)
        if fi is None:
            raise AnalysisError(f"anchor function {qualname} not found in {self.src_root}")
        return fi

    def cls(self, qualname: str) -> ClassInfo:
        ci = self.classes.get(qualname)
        if ci is None:
            raise AnalysisError(f"anchor class {qualname} not found in {self.src_root}")
        return ci

    def module(self, name: str) -> Module:
        m = self.modules.get(name)
        if m is None:
            raise AnalysisError(f"anchor module {name} not found")
        return m

    def resolve_name(self, m: Module, name: str) -> Optional[Tuple[str, Any]]:
        """Resolve a module-level name to ('class', ClassInfo) | ('func', FuncInfo) |
        ('module', Module) | ('const', (Module, name)) | ('ext', dotted)."""
        seen = set()
        while True:
            if (m.name, name) in seen:
                return None
            seen.add((m.name, name))
            qn = f"{m.name}.{name}"
            if qn in self.classes:
                return ("class", self.classes[qn])
            if qn in self.functions:
                return ("func", self.functions[qn])
            if name in m.assigns:
                return ("const", (m, name))
            imp = m.imports.get(name)
            if imp is None:
                return None
            if imp[0] == "module":
                return ("module", self.modules[imp[1]])
            if imp[0] == "ext":
                return ("ext", imp[1])
            target = self.modules.get(imp[1])
            if target is None:
                return ("ext", f"aiortc.{imp[1]}.{imp[2]}")
            m, name = target, imp[2]

    def mro(self, ci: ClassInfo) -> List[ClassInfo]:
        out = [ci]
        for b in ci.base_exprs:
            bc = self.resolve_class_expr(ci.module, b)
            if bc is not None:
                for x in self.mro(bc):
                    if x not in out:
                        out.append(x)
        return out

    def resolve_class_expr(self, m: Module, e: ast.expr, cls_ctx: Optional[ClassInfo] = None) -> Optional[ClassInfo]:
        if isinstance(e, ast.Constant) and isinstance(e.value, str):
            try:
                e = ast.parse(e.value, mode="eval").body
            except SyntaxError:
                return None
        if isinstance(e, ast.Name):
            r = self.resolve_name(m, e.id)
            if r and r[0] == "class":
                return r[1]
            return None
        if isinstance(e, ast.Attribute):
            if isinstance(e.value, ast.Name):
                r = self.resolve_name(m, e.value.id)
                if r and r[0] == "module":
                    r2 = self.resolve_name(r[1], e.attr)
                    if r2 and r2[0] == "class":
                        return r2[1]
                if r and r[0] == "class":
                    return r[1].inner.get(e.attr)
            base = self.resolve_class_expr(m, e.value, cls_ctx)
            if base is not None:
                return base.inner.get(e.attr)
        return None

    def find_method(self, ci: ClassInfo, name: str) -> Optional[FuncInfo]:
        for c in self.mro(ci):
            if name in c.methods:
                return c.methods[name]
        return None

    def class_attr_expr(self, ci: ClassInfo, name: str) -> Optional[Tuple[ClassInfo, ast.expr]]:
        for c in self.mro(ci):
            if name in c.attrs:
                return c, c.attrs[name]
        return None

    def subclasses(self, ci: ClassInfo) -> List[ClassInfo]:
        return [c for c in self.classes.values() if c is not ci and ci in self.mro(c)]

    # ------------------------------------------------------------------ constants
    def const(self, m: Module, name: str) -> Any:
        key = (m.name, name)
        if key in self._const_cache:
            v = self._const_cache[key]
            if isinstance(v, Unknown):
                raise v
            return v
        self._const_cache[key] = Unknown(f"cyclic constant {name}")
        try:
            r = self.resolve_name(m, name)
            if not r or r[0] != "const":
                raise Unknown(f"{m.name}.{name} is not a constant")
            mm, nn = r[1]
            v = self.const_eval(mm.assigns[nn], mm)
        except Unknown as u:
            self._const_cache[key] = u
            raise
        self._const_cache[key] = v
        return v

    def const_eval(self, e: ast.expr, m: Module, cls: Optional[ClassInfo] = None, env: Dict[str, Any] = None) -> Any:
        """Fold a side-effect-free expression built from literals, module constants,
        class attributes, arithmetic, range(). Raises Unknown otherwise."""
        ce = lambda x: self.const_eval(x, m, cls, env)  # noqa: E731
        if isinstance(e, ast.Constant):
            return e.value
        if isinstance(e, ast.Name):
            if env and e.id in env:
                return env[e.id]
            if e.id in ("True", "False", "None"):
                return {"True": True, "False": False, "None": None}[e.id]
            return self.const(m, e.id)
        if isinstance(e, ast.Attribute):
            # Module.CONST or Class.attr or self.attr (class-level constant)
            if isinstance(e.value, ast.Name):
                if e.value.id in ("self", "cls") and cls is not None:
                    r = self.class_attr_expr(cls, e.attr)
                    if r:
                        return self.const_eval(r[1], r[0].module, r[0])
                    raise Unknown(ast.unparse(e))
                r = self.resolve_name(m, e.value.id)
                if r and r[0] == "module":
                    return self.const(r[1], e.attr)
                if r and r[0] == "class":
                    if self.is_enum(r[1]):
                        raise Unknown("enum member")
                    a = self.class_attr_expr(r[1], e.attr)
                    if a:
                        return self.const_eval(a[1], a[0].module, a[0])
            else:
                c = self.resolve_class_expr(m, e.value)
                if c is not None and self.is_enum(c):
                    raise Unknown("enum member")
                if c is not None:
                    a = self.class_attr_expr(c, e.attr)
                    if a:
                        return self.const_eval(a[1], a[0].module, a[0])
            raise Unknown(ast.unparse(e))
        if isinstance(e, ast.UnaryOp):
            v = ce(e.operand)
            if isinstance(e.op, ast.USub):
                return -v
            if isinstance(e.op, ast.UAdd):
                return +v
            if isinstance(e.op, ast.Invert):
                return ~v
            if isinstance(e.op, ast.Not):
                return not v
        if isinstance(e, ast.BinOp):
            a, b = ce(e.left), ce(e.right)
            try:
                if isinstance(e.op, ast.Add):
                    return a + b
                if isinstance(e.op, ast.Sub):
                    return a - b
                if isinstance(e.op, ast.Mult):
                    if isinstance(a, (bytes, str, list)) and isinstance(b, int) and b > 1 << 20:
                        raise Unknown("huge repeat")
                    return a * b
                if isinstance(e.op, ast.FloorDiv):
                    return a // b
                if isinstance(e.op, ast.Div):
                    return a / b
                if isinstance(e.op, ast.Mod):
                    return a % b
                if isinstance(e.op, ast.Pow):
                    if isinstance(b, int) and abs(b) > 128:
                        raise Unknown("huge pow")
                    return a**b
                if isinstance(e.op, ast.LShift):
                    if b > 128:
                        raise Unknown("huge shift")
                    return a << b
                if isinstance(e.op, ast.RShift):
                    return a >> b
                if isinstance(e.op, ast.BitOr):
                    return a | b
                if isinstance(e.op, ast.BitAnd):
                    return a & b
                if isinstance(e.op, ast.BitXor):
                    return a ^ b
            except Unknown:
                raise
            except Exception as ex:
                raise Unknown(f"{ast.unparse(e)}: {ex}")
        if isinstance(e, ast.Tuple):
            return tuple(ce(x) for x in e.elts)
        if isinstance(e, ast.List):
            return [ce(x) for x in e.elts]
        if isinstance(e, ast.Set):
            return set(ce(x) for x in e.elts)
        if isinstance(e, ast.Dict):
            if any(k is None for k in e.keys):
                raise Unknown("dict unpack")
            return {ce(k): ce(v) for k, v in zip(e.keys, e.values)}
        if isinstance(e, ast.Call) and isinstance(e.func, ast.Name) and not e.keywords:
            if e.func.id == "range" and 1 <= len(e.args) <= 3:
                return range(*[ce(a) for a in e.args])
            if e.func.id in ("len", "min", "max", "abs", "int", "bool", "tuple", "list", "bytes", "sorted") and e.func.id not in m.assigns:
                try:
                    return {"len": len, "min": min, "max": max, "abs": abs, "int": int, "bool": bool,
                            "tuple": tuple, "list": list, "bytes": bytes, "sorted": sorted}[e.func.id](*[ce(a) for a in e.args])
                except Unknown:
                    raise
                except Exception as ex:
                    raise Unknown(str(ex))
        if isinstance(e, ast.Compare) and len(e.ops) == 1:
            a, b = ce(e.left), ce(e.comparators[0])
            op = e.ops[0]
            try:
                if isinstance(op, ast.Eq):
                    return a == b
                if isinstance(op, ast.NotEq):
                    return a != b
                if isinstance(op, ast.Lt):
                    return a < b
                if isinstance(op, ast.LtE):
                    return a <= b
                if isinstance(op, ast.Gt):
                    return a > b
                if isinstance(op, ast.GtE):
                    return a >= b
                if isinstance(op, ast.In):
                    return a in b
                if isinstance(op, ast.NotIn):
                    return a not in b
                if isinstance(op, ast.Is):
                    return a is b
                if isinstance(op, ast.IsNot):
                    return a is not b
            except Exception as ex:
                raise Unknown(str(ex))
        if isinstance(e, ast.BoolOp):
            vals = [ce(v) for v in e.values]
            if isinstance(e.op, ast.And):
                r = True
                for v in vals:
                    r = v
                    if not v:
                        break
                return r
            r = False
            for v in vals:
                r = v
                if v:
                    break
            return r
        if isinstance(e, ast.IfExp):
            return ce(e.body) if ce(e.test) else ce(e.orelse)
        if isinstance(e, ast.Subscript):
            try:
                return ce(e.value)[ce(e.slice)]
            except Unknown:
                raise
            except Exception as ex:
                raise Unknown(str(ex))
        if isinstance(e, ast.Slice):
            return slice(ce(e.lower) if e.lower else None, ce(e.upper) if e.upper else None, ce(e.step) if e.step else None)
        raise Unknown(f"cannot fold {ast.dump(e)[:80]}")

    def is_enum(self, ci: ClassInfo) -> bool:
        for c in self.mro(ci):
            for b in c.base_exprs:
                n = b.attr if isinstance(b, ast.Attribute) else getattr(b, "id", "")
                if n in ("Enum", "IntEnum", "Flag", "IntFlag"):
                    return True
        return False

    def try_const(self, e: ast.expr, m: Module, cls: Optional[ClassInfo] = None, env=None, default=None) -> Any:
        try:
            return self.const_eval(e, m, cls, env)
        except Unknown:
            return default

    # ------------------------------------------------------------------ helpers
    def iter_functions(self, module_prefixes: Optional[List[str]] = None) -> Iterator[FuncInfo]:
        for fi in self.functions.values():
            if module_prefixes is None or any(
                fi.module.name == p or fi.module.name.startswith(p + ".") for p in module_prefixes
            ):
                yield fi

    def where(self, fi: FuncInfo, node: ast.AST = None) -> str:
        line = getattr(node, "lineno", None) or fi.lineno
        return f"{fi.module.relpath}:{line}"


# ---------------------------------------------------------------------- struct formats
STRUCT_CHARS = {
    "x": (1, None), "c": (1, None), "b": (1, True), "B": (1, False), "?": (1, False),
    "h": (2, True), "H": (2, False), "i": (4, True), "I": (4, False), "l": (4, True),
    "L": (4, False), "q": (8, True), "Q": (8, False), "f": (4, None), "d": (8, None),
}


@dataclass
class StructFmt:
    order: str  # '!', '<', '>', '=', '@'
    fields: List[Tuple[str, int, Optional[bool]]]  # (char, width, signed)
    size: int

    def ranges(self) -> List[Tuple[int, int]]:
        out = []
        for ch, w, signed in self.fields:
            if signed is None:
                out.append((None, None))
            elif signed:
                out.append((-(1 << (8 * w - 1)), (1 << (8 * w - 1)) - 1))
            else:
                out.append((0, (1 << (8 * w)) - 1))
        return out


def parse_struct_fmt(fmt: str) -> StructFmt:
    order = "@"
    i = 0
    if fmt and fmt[0] in "!<>=@":
        order = fmt[0]
        i = 1
    if order == "@":
        # native alignment is never used in aiortc for wire data; refuse to guess
        pass
    fields = []
    size = 0
    num = ""
    while i < len(fmt):
        ch = fmt[i]
        i += 1
        if ch.isdigit():
            num += ch
            continue
        if ch.isspace():
            continue
        if ch == "s":
            n = int(num) if num else 1
            fields.append(("s", n, None))
            size += n
            num = ""
            continue
        if ch not in STRUCT_CHARS:
            raise AnalysisError(f"unsupported struct format char {ch!r} in {fmt!r}")
        n = int(num) if num else 1
        num = ""
        w, signed = STRUCT_CHARS[ch]
        for _ in range(n):
            if ch != "x":
                fields.append((ch, w, signed))
            size += w
    return StructFmt(order=order, fields=fields, size=size)


def unparse(node: ast.AST) -> str:
    try:
        return ast.unparse(node)
    except Exception:
        return ast.dump(node)[:120]


def walk_no_nested(node: ast.AST) -> Iterator[ast.AST]:
    """ast.walk that does not descend into nested function/class definitions or lambdas
    (the root itself is yielded and descended even if it is a def)."""
    stack = [node]
    first = True
    while stack:
        n = stack.pop()
        if not first and isinstance(n, (ast.FunctionDef, ast.AsyncFunctionDef, ast.Lambda, ast.ClassDef)):
            continue
        first = False
        yield n
        stack.extend(ast.iter_child_nodes(n))
