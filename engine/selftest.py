"""Self-validation of a check (thorough tier).

The corpus lives in /verif/seeded/<PROP>_*/ : patch.diff + meta.json, plus /verif/twins/*/patch.diff (behaviour-preserving
refactorings of the anchored code; every check must stay silent on each of them).  meta.json says what the check must do on the patched
tree: "expect": "violation" (a confirmed property-breaking change: the check must exit 1) or "silent" (a change that keeps
the property: the check must exit 0).  Each patch is applied to a scratch copy of the *current* source root (never to /repo),
the quick check is run on the copy in a subprocess with its evidence redirected to the scratch directory, and the copy is
removed.  A patch that no longer applies to the current tree is reported as skipped, not as a failure.

A mismatch means the checker regressed: the thorough run then ends with ANALYSIS-ERROR (exit 2), never with a VIOLATION,
because it says nothing about the property on /repo's tree.
"""
from __future__ import annotations

import glob
import json
import os
import re
import shutil
import subprocess
import sys
import tempfile
from concurrent.futures import ThreadPoolExecutor
from typing import Any, Dict, List

from .index import AnalysisError, Program

VERIF = os.path.dirname(os.path.dirname(os.path.abspath(__file__)))


def _one(prop: str, src_root: str, seed_dir: str, meta: Dict[str, Any]) -> Dict[str, Any]:
    name = os.path.basename(seed_dir.rstrip("/"))
    out: Dict[str, Any] = {"case": name, "expect": meta.get("expect", "violation")}
    scratch = tempfile.mkdtemp(prefix=f"verif-selftest-{name}-")
    try:
        pkg = os.path.join(scratch, "src", "aiortc")
        shutil.copytree(src_root, pkg, ignore=shutil.ignore_patterns("__pycache__", "*.so", "*.pyc"))
        r = subprocess.run(["git", "apply", "--include=src/aiortc/*", os.path.join(seed_dir, "patch.diff")], cwd=scratch, capture_output=True, text=True)
        if r.returncode != 0:
            out["result"] = "skipped"
            out["detail"] = "patch does not apply to the current tree: " + (r.stderr.strip().splitlines() or [""])[0][:160]
            return out
        env = dict(os.environ, VERIF_EVIDENCE_DIR=os.path.join(scratch, "evidence"), VERIF_TIER="quick")
        c = subprocess.run([sys.executable, os.path.join(VERIF, "check.py"), prop, "--tier", "quick", "--src", pkg], cwd=VERIF, env=env, capture_output=True, text=True)
        out["exit"] = c.returncode
        fired = sorted({ln.split("]")[0].split("[")[1] for ln in c.stdout.splitlines() if ln.startswith("FINDING [")})
        out["rules_fired"] = fired
        want = 1 if out["expect"] == "violation" else 0
        out["result"] = "ok" if c.returncode == want else "MISMATCH"
        if out["result"] != "ok":
            out["detail"] = (c.stdout.strip().splitlines() or [""])[-1][:300]
        return out
    finally:
        shutil.rmtree(scratch, ignore_errors=True)


def run_selftest(rep, mod, prog: Program, seed: int) -> None:
    prop = rep.prop
    cases = []
    for d in sorted(glob.glob(os.path.join(VERIF, "seeded", f"{prop}_*"))):
        mp = os.path.join(d, "meta.json")
        if not os.path.exists(mp) or not os.path.exists(os.path.join(d, "patch.diff")):
            continue
        with open(mp) as fh:
            meta = json.load(fh)
        if meta.get("status") not in ("confirmed", "neutral"):
            continue
        cases.append((d, meta))
    # behaviour-preserving refactorings (written by independent sub-agents, suite passes with each): every check must stay silent
    # (replayed for this property when the twin touches a file the property is anchored in - properties.jsonl - or, with VERIF_ALL_TWINS=1, always)
    anchored = set()
    try:
        with open(os.path.join(VERIF, "properties.jsonl")) as fh:
            for line in fh:
                d_ = json.loads(line)
                if d_["id"] == prop:
                    anchored = set(d_["anchors"]["files"])
    except OSError:
        pass
    skipped_twins = 0
    for d in sorted(glob.glob(os.path.join(VERIF, "twins", "*"))):
        pf = os.path.join(d, "patch.diff")
        if os.path.exists(pf):
            with open(pf) as fh:
                touched = set(re.findall(r"^\+\+\+ b/(\S+)", fh.read(), re.M))
            if anchored and not (touched & anchored) and not os.environ.get("VERIF_ALL_TWINS"):
                skipped_twins += 1
                continue
            cases.append((d, {"expect": "silent", "status": "neutral"}))
    if not cases:
        rep.selftest = {"cases": 0, "note": "no confirmed corpus entry for this property"}
        return
    with ThreadPoolExecutor(max_workers=min(int(os.environ.get("VERIF_PAR", "8")), len(cases))) as ex:
        results: List[Dict[str, Any]] = list(ex.map(lambda c: _one(prop, prog.src_root, c[0], c[1]), cases))
    rep.selftest = {
        "cases": len(results),
        "ok": sum(1 for r in results if r["result"] == "ok"),
        "skipped": sum(1 for r in results if r["result"] == "skipped"),
        "mismatch": sum(1 for r in results if r["result"] == "MISMATCH"),
        "results": results,
        "twins_not_replayed": skipped_twins,
        "rule": "each corpus patch is applied to a scratch copy of the current source and the quick check is run on it; "
                "'violation' cases must exit 1, 'silent' cases must exit 0; a behaviour-preserving twin is replayed for the properties anchored in a file it touches",
    }
    for r in results:
        print(f"  selftest {r['case']}: expect {r['expect']} -> {r['result']}" + (f" ({', '.join(r.get('rules_fired', []))})" if r.get("rules_fired") else "")
              + (f" [{r['detail']}]" if r.get("detail") else ""))
    bad = [r for r in results if r["result"] == "MISMATCH"]
    if bad:
        raise AnalysisError("self-validation failed: " + "; ".join(f"{r['case']} expected {r['expect']} but the check exited {r.get('exit')}" for r in bad))
