import asyncio, sys
sys.path.insert(0, "/repo")
from aiortc.rtcsctptransport import RTCSctpTransport, SackChunk, DataChunk, USERDATA_MAX_LENGTH
from tests.test_rtcsctptransport import client_standalone

async def main():
    sent = []
    async def mock_send_chunk(chunk):
        if isinstance(chunk, DataChunk):
            sent.append(chunk.tsn)
    async with client_standalone() as client:
        client._last_sacked_tsn = 4294967295
        client._local_tsn = 0
        client._ssthresh = 131072
        client._send_chunk = mock_send_chunk
        # three messages -> three chunks: 1 byte, 1198 bytes, 1200 bytes
        await client._send(1, 53, b"a")
        await client._send(1, 53, b"b" * 1198)
        await client._send(1, 53, b"c" * 1200)
        print("sent", sent, "flight", client._flight_size, "cwnd", client._cwnd)
        # datagram with TSN 0 was lost; peer got 1 and 2
        sack = SackChunk(); sack.cumulative_tsn = 4294967295; sack.gaps = [(2, 3)]
        await client._receive_chunk(sack)
        print("after gap SACK: flight", client._flight_size)
        # retransmission time-out
        client._t3_cancel(); client._t3_expired()
        await asyncio.sleep(0.05)
        print("after T3: sent", sent, "flight", client._flight_size, "cwnd", client._cwnd)
        # peer now has everything
        sack = SackChunk(); sack.cumulative_tsn = 2
        await client._receive_chunk(sack)
        print("after final SACK: outstanding", len(client._sent_queue), "flight", client._flight_size, "cwnd", client._cwnd, "t3", client._t3_handle)
        # fault-free from here: try to send more
        n = len(sent)
        await client._send(1, 53, b"hello")
        await asyncio.sleep(0.2)
        print("new data transmitted:", len(sent) > n, "queued:", len(client._outbound_queue))
        ok = len(sent) > n and client._flight_size == len(b"hello")
        print("OK" if ok else "STALL: association idle (nothing outstanding, no timer) but flight_size >= cwnd; queued data is never sent")
        return 0 if ok else 1
sys.exit(asyncio.run(main()))
