import asyncio
from aiortc import RTCPeerConnection
async def main():
    pc1 = RTCPeerConnection(); pc2 = RTCPeerConnection()
    pc1.addTransceiver("audio")
    pc2.addTransceiver("video")   # answerer created a video transceiver beforehand
    await pc1.setLocalDescription(await pc1.createOffer())
    await pc2.setRemoteDescription(pc1.localDescription)
    try:
        ans = await pc2.createAnswer()
        await pc2.setLocalDescription(ans)
        await pc1.setRemoteDescription(pc2.localDescription)
        print("OK", pc1.signalingState, pc2.signalingState, [t.currentDirection for t in pc2.getTransceivers()])
    except Exception as e:
        import traceback; traceback.print_exc()
        print("FAIL", type(e).__name__, e, "pc2 signaling:", pc2.signalingState)
    await pc1.close(); await pc2.close()
asyncio.run(main())
