import asyncio, sys
from aiortc import RTCPeerConnection, RTCConfiguration, RTCBundlePolicy

async def run(order):
    pc1 = RTCPeerConnection(RTCConfiguration(bundlePolicy=RTCBundlePolicy.MAX_BUNDLE)); pc2 = RTCPeerConnection()
    if order == "dc-first":
        dc = pc1.createDataChannel("chat"); pc1.addTransceiver("audio")
    else:
        pc1.addTransceiver("audio"); dc = pc1.createDataChannel("chat")
    opened = asyncio.Event()
    dc.on("open", lambda: opened.set())
    await pc1.setLocalDescription(await pc1.createOffer())
    await pc2.setRemoteDescription(pc1.localDescription)
    await pc2.setLocalDescription(await pc2.createAnswer())
    await pc1.setRemoteDescription(pc2.localDescription)
    try:
        await asyncio.wait_for(opened.wait(), 8)
        ok = True
    except asyncio.TimeoutError:
        ok = False
    print(order, "->", "channel open" if ok else f"NOT connected: pc1 {pc1.connectionState}/{pc1.iceConnectionState}, pc2 {pc2.connectionState}, channel {dc.readyState}")
    await pc1.close(); await pc2.close()
    return ok
async def main():
    a = await run("audio-first"); b = await run("dc-first")
    return 0 if a and b else 1
sys.exit(asyncio.run(main()))
