"""C02 / C06: flight-size accounting when a partially reliable message is abandoned through the fast-retransmit (SACK strike) path.
One ordered maxRetransmits=0 message of 8 fragments is in flight; fragment 1 is lost, 2..4 arrive and are reported in three SACKs
(gap blocks) while 5..8 are still on their way.  The third miss abandons the message: fragments 5..8 leave the sent queue with their
bytes still counted in _flight_size.  Everything is acknowledged afterwards, nothing is outstanding, no timer runs - and the sender
cannot transmit anything any more, on any channel."""
import asyncio, sys
sys.path.insert(0, "/repo")
from aiortc.rtcsctptransport import RTCSctpTransport, SackChunk, USERDATA_MAX_LENGTH
from tests.test_rtcsctptransport import client_standalone


async def main():
    async with client_standalone() as snd:
        wire = []
        async def out(chunk): wire.append(chunk)
        snd._send_chunk = out
        snd._last_sacked_tsn = 4294967295; snd._local_tsn = 0; snd._advanced_peer_ack_tsn = 4294967295
        snd._cwnd = 8 * USERDATA_MAX_LENGTH; snd._ssthresh = 131072
        await snd._send(1, 53, b"P" * (8 * USERDATA_MAX_LENGTH), max_retransmits=0)
        print("in flight:", [c.tsn for c in snd._sent_queue], "flight size", snd._flight_size)
        for hi in (1, 2, 3):                       # TSN 0 lost; 1, 2, 3 arrive one by one
            sack = SackChunk(); sack.cumulative_tsn = 4294967295; sack.gaps = [(2, hi + 1)]
            await snd._receive_chunk(sack)
        print("after the third miss: outstanding", [c.tsn for c in snd._sent_queue], "flight size", snd._flight_size,
              "forward-tsn sent:", [type(c).__name__ for c in wire if type(c).__name__ == "ForwardTsnChunk"])
        sack = SackChunk(); sack.cumulative_tsn = 7          # the peer processed the FORWARD-TSN: everything is acknowledged
        await snd._receive_chunk(sack)
        print("all acknowledged: outstanding", [c.tsn for c in snd._sent_queue], "flight size", snd._flight_size, "cwnd", snd._cwnd, "T3 running:", snd._t3_handle is not None)
        wire.clear()
        await snd._send(2, 53, b"reliable message on another channel")
        await asyncio.sleep(0.05)
        sent = [c.tsn for c in wire if type(c).__name__ == "DataChunk"]
        print("new message transmitted:", sent, " still queued:", [c.tsn for c in snd._outbound_queue])
        ok = bool(sent)
        print("OK" if ok else "FAIL: nothing is outstanding but _flight_size >= cwnd, no timer is armed: the association is stalled for good")
        return 0 if ok else 1
sys.exit(asyncio.run(main()))
