import asyncio, sys
from aiortc import RTCPeerConnection
async def main():
    pc1 = RTCPeerConnection(); pc2 = RTCPeerConnection()
    pc1.addTransceiver("audio")
    await pc1.setLocalDescription(await pc1.createOffer())
    # pc2 applies the offer and is closed while setRemoteDescription is still suspended
    t = asyncio.ensure_future(pc2.setRemoteDescription(pc1.localDescription))
    await asyncio.sleep(0)
    await pc2.close()
    try:
        await t
    except Exception as e:
        print("setRemoteDescription raised", type(e).__name__)
    print("pc2.signalingState after close():", pc2.signalingState)
    ok = pc2.signalingState == "closed"
    await pc1.close()
    return 0 if ok else 1
sys.exit(asyncio.run(main()))
