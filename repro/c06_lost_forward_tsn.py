"""C06: "once the network recovers, messages sent afterwards on the same channel are delivered again".
Schedule: the only message of an ordered maxRetransmits=0 channel is lost, it is abandoned, and the datagram carrying the FORWARD-TSN
is lost as well.  From then on the network is perfect.  The receiver keeps reporting the old cumulative TSN in every SACK."""
import asyncio, sys
sys.path.insert(0, "/repo")
from aiortc.rtcsctptransport import RTCSctpTransport, DataChunk, ForwardTsnChunk, SackChunk
from tests.test_rtcsctptransport import client_standalone


async def main():
    async with client_standalone() as snd, client_standalone() as rcv:
        wire, back = [], []
        async def snd_out(chunk): wire.append(chunk)
        async def rcv_out(chunk): back.append(chunk)
        snd._send_chunk = snd_out; rcv._send_chunk = rcv_out
        snd._last_sacked_tsn = 4294967295; snd._local_tsn = 0; snd._ssthresh = 131072
        got = []
        async def recv(stream_id, pp_id, data): got.append(bytes(data))
        rcv._receive = recv; rcv._last_received_tsn = 4294967295
        await snd._send(1, 53, b"lost", max_retransmits=0)
        wire.clear()                                     # DATA tsn 0 is lost
        snd._t3_cancel(); snd._t3_expired(); await asyncio.sleep(0.05)   # T3: abandoned, FORWARD-TSN goes out ...
        print("after T3:", [type(c).__name__ for c in wire])
        wire.clear()                                     # ... and is lost, too.  The network is fine from here on.
        for n in range(1, 6):
            await snd._send(1, 53, b"msg%d" % n, max_retransmits=0)
            for _ in range(4):
                batch = list(wire); wire.clear()
                for c in batch:
                    await rcv._receive_chunk(c)
                if rcv._sack_needed:                     # what _handle_data does after every received packet
                    await rcv._send_sack()
                await asyncio.sleep(0.01)
                acks = list(back); back.clear()
                for c in acks:
                    await snd._receive_chunk(c)
                if not batch and not acks:
                    break
        print("receiver delivered:", got, " cumulative TSN at the receiver:", rcv._last_received_tsn,
              " sender: outstanding", [c.tsn for c in snd._sent_queue], "adv.peer.ack", snd._advanced_peer_ack_tsn, "last sacked", snd._last_sacked_tsn)
        ok = got[-3:] == [b"msg3", b"msg4", b"msg5"]
        print("OK" if ok else "FAIL: the FORWARD-TSN is sent once and never again; the channel stays blocked after the network recovered")
        return 0 if ok else 1
sys.exit(asyncio.run(main()))
