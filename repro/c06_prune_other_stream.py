import asyncio, sys
sys.path.insert(0, "/repo")
from aiortc.rtcsctptransport import (RTCSctpTransport, DataChunk, ForwardTsnChunk, SCTP_DATA_FIRST_FRAG, SCTP_DATA_LAST_FRAG)
from tests.test_rtcsctptransport import client_standalone

def data(tsn, stream, seq, flags, payload):
    c = DataChunk(); c.tsn = tsn; c.stream_id = stream; c.stream_seq = seq; c.flags = flags; c.protocol = 53; c.user_data = payload
    return c

async def main():
    got = []
    async def recv(stream_id, pp_id, data):
        got.append((stream_id, data))
    async def noop(chunk): pass
    async with client_standalone() as t:
        t._last_received_tsn = 8
        t._receive = recv
        t._send_chunk = noop
        # reliable ordered channel (stream 1): one message in three fragments, TSN 10,11,12
        # partially reliable channel (stream 2): message TSN 9 is lost and gets abandoned by the sender
        await t._receive_chunk(data(10, 1, 0, SCTP_DATA_FIRST_FRAG, b"AAA"))
        await t._receive_chunk(data(11, 1, 0, 0, b"BBB"))
        fwd = ForwardTsnChunk(); fwd.cumulative_tsn = 9; fwd.streams = [(2, 0)]
        await t._receive_chunk(fwd)
        await t._receive_chunk(data(12, 1, 0, SCTP_DATA_LAST_FRAG, b"CCC"))
        # a later message on the reliable channel
        await t._receive_chunk(data(13, 1, 1, SCTP_DATA_FIRST_FRAG | SCTP_DATA_LAST_FRAG, b"next"))
        print("delivered:", got, "cumulative TSN:", t._last_received_tsn)
        ok = got == [(1, b"AAABBBCCC"), (1, b"next")]
        print("OK" if ok else "FAIL: abandoning a message on stream 2 destroyed / blocked messages of the reliable stream 1")
        return 0 if ok else 1
sys.exit(asyncio.run(main()))
