import asyncio, sys
sys.path.insert(0, "/repo")
from aiortc.rtcsctptransport import DataChunk, SCTP_DATA_FIRST_FRAG, SCTP_DATA_LAST_FRAG
from tests.test_rtcsctptransport import client_standalone

def data(tsn, stream, seq, payload):
    c = DataChunk(); c.tsn = tsn; c.stream_id = stream; c.stream_seq = seq; c.flags = SCTP_DATA_FIRST_FRAG | SCTP_DATA_LAST_FRAG; c.protocol = 53; c.user_data = payload
    return c

async def main():
    got = []
    async def recv(stream_id, pp_id, d): got.append((stream_id, d))
    async def noop(chunk): pass
    async with client_standalone() as t:
        t._last_received_tsn = 9; t._receive = recv; t._send_chunk = noop
        # two channels interleaved: stream 1 sends A (TSN 10) and B (TSN 12), stream 2 sends C (TSN 11); datagrams arrive reordered
        for c in (data(12, 1, 1, b"B"), data(11, 2, 0, b"C"), data(10, 1, 0, b"A")):
            await t._receive_chunk(c)
        print("delivered:", got, "cumulative TSN:", t._last_received_tsn, "parked:", {k: [c.tsn for c in v.reassembly] for k, v in t._inbound_streams.items()})
        ok = sorted(got) == [(1, b"A"), (1, b"B"), (2, b"C")]
        print("OK" if ok else "FAIL: everything has arrived (cumulative TSN 12) but message B stays in the reassembly queue")
        return 0 if ok else 1
sys.exit(asyncio.run(main()))
