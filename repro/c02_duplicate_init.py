import asyncio, sys
sys.path.insert(0, "/repo")
from aiortc.rtcsctptransport import RTCSctpTransport, RTCSctpCapabilities, InitChunk, parse_packet
from tests.test_rtcsctptransport import client_and_server, wait_for_outcome

async def main():
    async with client_and_server() as (client, server):
        # record the client's INIT datagram so the network can deliver a duplicate of it later
        init_datagrams = []
        orig = client.transport._send_data
        async def tap(data):
            try:
                if isinstance(parse_packet(data)[3][0], InitChunk): init_datagrams.append(data)
            except Exception: pass
            await orig(data)
        client.transport._send_data = tap
        await server.start(client.getCapabilities(), client.port)
        await client.start(server.getCapabilities(), server.port)
        await wait_for_outcome(client, server)
        assert client._association_state == RTCSctpTransport.State.ESTABLISHED
        got = []
        server._receive = None
        async def recv(stream_id, pp_id, data): got.append(data)
        server._receive = recv
        await client._send(1, 53, b"before")
        await asyncio.sleep(0.3)
        # the network delivers a late duplicate of the INIT datagram
        await server._handle_data(init_datagrams[0])
        for i in range(5):
            await client._send(1, 53, b"after%d" % i)
        await asyncio.sleep(1.5)
        print("delivered:", got)
        print("client outstanding:", len(client._sent_queue), "flight:", client._flight_size, "last sacked:", client._last_sacked_tsn, "server cumulative:", server._last_received_tsn)
        ok = len(client._sent_queue) == 0
        print("OK" if ok else "FAIL: after a duplicated INIT datagram the server acknowledges from the initial TSN again; the client drops those SACKs as stale and its data stays outstanding for ever")
        return 0 if ok else 1
sys.exit(asyncio.run(main()))
