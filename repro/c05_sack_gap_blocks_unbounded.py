"""
C05 repro (unmodified source): unbounded number of gap ack blocks.
(harness adapted from a seeding agent's demo)
C05 / m1 demo: retransmitted (duplicate) SCTP DATA chunks must not make the
receive path use memory / emit replies out of proportion to what was received,
and must never crash it.

Run:  PYTHONPATH=/tmp/wt8-C05/src /venv/bin/python demo.py
Exit code 0 = property holds, 1 = property violated.
"""

import asyncio
import logging
import sys
sys.path.insert(0, "/repo/src")

from aiortc.rtcdtlstransport import RTCCertificate, RTCDtlsTransport
from aiortc.rtcsctptransport import (
    DataChunk,
    RTCSctpCapabilities,
    RTCSctpTransport,
    SackChunk,
    parse_packet,
    serialize_packet,
)

logging.disable(logging.CRITICAL)


# --- in-process "network" (same idea as tests/utils.py) ----------------------
class Conn:
    def __init__(self, rx, tx):
        self.rx, self.tx, self.closed = rx, tx, False

    async def recv(self):
        if self.closed:
            raise ConnectionError
        data = await self.rx.get()
        if data is None:
            raise ConnectionError
        return data

    async def send(self, data):
        if self.closed:
            raise ConnectionError
        await self.tx.put(data)

    async def close(self):
        if not self.closed:
            await self.rx.put(None)
            self.closed = True


class Ice:
    def __init__(self, conn, role):
        self._connection, self.role = conn, role

    async def stop(self):
        await self._connection.close()

    async def _recv(self):
        return await self._connection.recv()

    async def _send(self, data):
        await self._connection.send(data)


async def wait_for(cond, timeout=5.0):
    end = asyncio.get_event_loop().time() + timeout
    while not cond():
        if asyncio.get_event_loop().time() > end:
            return False
        await asyncio.sleep(0.01)
    return True


async def main() -> int:
    qa, qb = asyncio.Queue(), asyncio.Queue()
    ice_a, ice_b = Ice(Conn(qa, qb), "controlling"), Ice(Conn(qb, qa), "controlled")
    dtls_c = RTCDtlsTransport(ice_a, [RTCCertificate.generateCertificate()])
    dtls_s = RTCDtlsTransport(ice_b, [RTCCertificate.generateCertificate()])
    await asyncio.gather(
        dtls_s.start(dtls_c.getLocalParameters()),
        dtls_c.start(dtls_s.getLocalParameters()),
    )
    client, server = RTCSctpTransport(dtls_c), RTCSctpTransport(dtls_s)
    caps = RTCSctpCapabilities(maxMessageSize=65536)
    await server.start(caps, client.port)
    await client.start(caps, server.port)
    E = RTCSctpTransport.State.ESTABLISHED
    assert await wait_for(
        lambda: client._association_state == E and server._association_state == E
    ), "association set-up failed"

    # the server opens a data channel and sends one message to the client
    from aiortc.rtcdatachannel import RTCDataChannel, RTCDataChannelParameters

    received = []

    @client.on("datachannel")
    def on_dc(channel):
        channel.on("message", lambda m: received.append(m))

    chan = RTCDataChannel(server, RTCDataChannelParameters(label="chat"))
    assert await wait_for(lambda: chan.readyState == "open"), "channel did not open"
    chan.send("hello")
    assert await wait_for(lambda: received == ["hello"]), "valid traffic not delivered"
    assert await wait_for(lambda: not server._sent_queue)

    # record the size of every SACK the client sends from now on
    sack_gaps = []
    orig_send_chunk = client._send_chunk

    async def spy(chunk):
        if isinstance(chunk, SackChunk):
            sack_gaps.append((len(chunk.gaps), len(bytes(chunk))))
        await orig_send_chunk(chunk)

    client._send_chunk = spy

    # Well-formed DATA chunks, correct checksum and verification tag, that carry every second TSN ahead of the cumulative TSN (the peer "lost" the others):
    # each one is a separate gap ack block in the client's SACK.
    base = client._last_received_tsn
    from google_crc32c import value as crc32c
    from struct import pack

    def chunk_for(k):
        c = DataChunk()
        c.flags = 3 | 4          # unordered, complete message
        c.tsn = (base + 2 * k) % 2**32
        c.stream_id = chan.id
        c.stream_seq = 0
        c.protocol = 51
        c.user_data = b"x"
        return c
    header = serialize_packet(server.port, client.port, client._local_verification_tag, chunk_for(1))[:12]

    def bundle(ks):
        body = b"".join(bytes(chunk_for(k)) for k in ks)
        pkt = header[:8] + b"\x00\x00\x00\x00" + body
        return header[:8] + pack("<L", crc32c(pkt)) + body
    failures = []
    k = 1
    for _ in range(110):                 # 110 datagrams of about 1.2 kB: 6600 chunks
        if dtls_c.state != "connected":
            break
        await dtls_s._send_data(bundle(range(k, k + 60)))
        k += 60
        await asyncio.sleep(0)
    await asyncio.sleep(0.5)
    print("datagrams sent: %d, SACKs: %d, largest SACK: %d gap blocks, %d bytes; client DTLS state: %s" % ((k - 1) // 60, len(sack_gaps), max(g for g, _ in sack_gaps), max(b for _, b in sack_gaps), dtls_c.state))
    if dtls_c.state != "connected":
        failures.append("client DTLS transport is %s after out-of-order DATA chunks" % dtls_c.state)
    if max(b for _, b in sack_gaps) > 1400:
        failures.append("a SACK of %d bytes was built in answer to a 1.2 kB datagram: it does not fit into a datagram / DTLS record" % max(b for _, b in sack_gaps))
    chan.send("still there?")
    if not await wait_for(lambda: "still there?" in received, timeout=3.0):
        failures.append("valid message sent afterwards was not delivered")

    for f in failures:
        print("FAIL:", f)
    if not failures:
        print("OK: SACK size stays bounded, transport still up")

    for t in (client, server):
        try:
            await t.stop()
        except Exception:
            pass
    await dtls_c.stop()
    await dtls_s.stop()
    return 1 if failures else 0


if __name__ == "__main__":
    sys.exit(asyncio.run(main()))
