"""C05: a well-formed but nonsensical SCTP chunk must leave the association working.
An established association; the peer sends ONE SACK whose cumulative TSN is far beyond anything this side has ever sent.  Afterwards the peer behaves."""
import asyncio, sys
sys.path.insert(0, "/repo")
from aiortc.rtcsctptransport import RTCSctpTransport, SackChunk
from tests.test_rtcsctptransport import client_and_server, wait_for_outcome


async def main():
    async with client_and_server() as (client, server):
        got = []
        @server.on("datachannel")
        def on_dc(ch):
            @ch.on("message")
            def on_msg(m): got.append(m)
        await server.start(client.getCapabilities(), client.port)
        await client.start(server.getCapabilities(), server.port)
        await wait_for_outcome(client, server)
        from aiortc.rtcdatachannel import RTCDataChannel, RTCDataChannelParameters
        ch = RTCDataChannel(client, RTCDataChannelParameters(label="chat"))
        await asyncio.sleep(0.3)
        ch.send("before")
        await asyncio.sleep(0.3)
        bogus = SackChunk(); bogus.cumulative_tsn = (client._local_tsn + 100000) % 2**32
        await client._receive_chunk(bogus)                       # what _handle_data does with a received chunk
        for i in range(30):
            ch.send(f"after {i} " + "x" * 1000)
        await asyncio.sleep(4.0)
        got = [m[:8].strip() for m in got]
        print("delivered:", len(got), "messages; outstanding at the sender:", len(client._sent_queue), "queued:", len(client._outbound_queue), "flight size", client._flight_size, "cwnd", client._cwnd)
        ok = len(got) == 31 and not client._sent_queue
        print("OK" if ok else "FAIL: one SACK acknowledging TSNs that were never sent makes the sender ignore every genuine SACK; its data stays outstanding")
        return 0 if ok else 1
sys.exit(asyncio.run(main()))
