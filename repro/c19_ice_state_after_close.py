"""C19: after close() the ICE transports stay `closed` and nothing of theirs keeps running.
pc1 is closed while ICE is checking, then pc2 is closed.  (script written by a seeding agent as a diagnostic, exit code added)"""
import asyncio, os, sys
sys.path.insert(0, "/repo/src")
from aiortc import RTCConfiguration, RTCPeerConnection
from aiortc.mediastreams import AudioStreamTrack

async def main():
    pc1 = RTCPeerConnection(RTCConfiguration(iceServers=[]))
    pc2 = RTCPeerConnection(RTCConfiguration(iceServers=[]))
    pc1.addTrack(AudioStreamTrack()); pc2.addTrack(AudioStreamTrack())
    await pc1.setLocalDescription(await pc1.createOffer())
    await pc2.setRemoteDescription(pc1.localDescription)
    await pc2.setLocalDescription(await pc2.createAnswer())
    await pc1.setRemoteDescription(pc2.localDescription)
    ice1 = pc1.getTransceivers()[0].receiver.transport.transport
    ice2 = pc2.getTransceivers()[0].receiver.transport.transport
    while ice1.state != "checking":
        await asyncio.sleep(0)
    await pc1.close()
    print("after pc1.close(): ice1", ice1.state, "ice2", ice2.state)
    await pc2.close()
    print("after pc2.close(): ice1", ice1.state, "ice2", ice2.state)
    await asyncio.sleep(1)
    print("settled: ice1", ice1.state, "ice2", ice2.state)
    left = 0
    for t in asyncio.all_tasks():
        if t is asyncio.current_task(): continue
        c = t.get_coro()
        owner = c.cr_frame.f_locals.get("self") if c.cr_frame else None
        who = "pc1" if owner is ice1._connection else "pc2" if owner is ice2._connection else "?"
        print("left:", c.__qualname__, "owner:", who)
        left += 1
    ok = ice1.state == "closed" and ice2.state == "closed" and not left
    print("OK" if ok else "FAIL: an ICE transport left `closed` again after close() / an aioice task is still running")
    global RC
    RC = 0 if ok else 1
RC = 1
asyncio.run(main()); sys.stdout.flush(); os._exit(RC)
