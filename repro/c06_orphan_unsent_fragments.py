import asyncio, sys
sys.path.insert(0, "/repo")
from aiortc.rtcsctptransport import RTCSctpTransport, DataChunk, ForwardTsnChunk, USERDATA_MAX_LENGTH
from tests.test_rtcsctptransport import client_standalone

async def main():
    async with client_standalone() as snd, client_standalone() as rcv:
        wire = []
        async def send_chunk(chunk): wire.append(chunk)
        snd._send_chunk = send_chunk
        snd._last_sacked_tsn = 4294967295; snd._local_tsn = 0; snd._ssthresh = 131072
        got = []
        async def recv(stream_id, pp_id, data): got.append(data[:8])
        async def noop(chunk): pass
        rcv._receive = recv; rcv._send_chunk = noop; rcv._last_received_tsn = 4294967295
        # one ordered, partially reliable message of 5 fragments; the window lets only 3 out
        await snd._send(1, 53, b"A" * (5 * USERDATA_MAX_LENGTH), max_retransmits=0)
        first_burst = list(wire); wire.clear()
        print("sent first:", [c.tsn for c in first_burst], "still queued:", [c.tsn for c in snd._outbound_queue])
        # the whole first burst is lost; T3 expires; the message is abandoned
        snd._t3_cancel(); snd._t3_expired(); await asyncio.sleep(0.05)
        # then the application sends another (small) message on the same channel; network is fine from now on
        await snd._send(1, 53, b"second!!", max_retransmits=0)
        for _ in range(5):
            batch = list(wire); wire.clear()
            if not batch: break
            for c in batch:
                await rcv._receive_chunk(c)
            # acknowledge everything the receiver has
            from aiortc.rtcsctptransport import SackChunk
            sack = SackChunk(); sack.cumulative_tsn = rcv._last_received_tsn
            await snd._receive_chunk(sack); await asyncio.sleep(0.01)
        print("receiver delivered:", got, "reassembly:", {k: [c.tsn for c in v.reassembly] for k, v in rcv._inbound_streams.items()})
        ok = got == [b"second!!"]
        print("OK" if ok else "FAIL: the message sent after the abandoned one is never delivered (orphan fragments block the ordered stream)")
        return 0 if ok else 1
sys.exit(asyncio.run(main()))
