import asyncio, sys
from aiortc import RTCPeerConnection
from aiortc.mediastreams import AudioStreamTrack, MediaStreamError
async def scenario(connect):
    pc1 = RTCPeerConnection(); pc2 = RTCPeerConnection()
    pc1.addTrack(AudioStreamTrack())
    tracks = []
    pc2.on("track", lambda t: tracks.append(t))
    await pc1.setLocalDescription(await pc1.createOffer())
    await pc2.setRemoteDescription(pc1.localDescription)
    if connect:
        await pc2.setLocalDescription(await pc2.createAnswer())
        await pc1.setRemoteDescription(pc2.localDescription)
        for _ in range(50):
            if pc2.connectionState == "connected": break
            await asyncio.sleep(0.1)
        await asyncio.sleep(0.3)
    t = tracks[0]
    await pc2.close(); await pc1.close()
    state_now = t.readyState
    try:
        await asyncio.wait_for(t.recv(), 2)
        after = "recv returned a frame"
        while True:
            await asyncio.wait_for(t.recv(), 2)
    except MediaStreamError:
        after = "recv raised MediaStreamError"
    except asyncio.TimeoutError:
        after = "recv() HANGS"
    print(("connected" if connect else "not connected"), "-> readyState right after close():", state_now, "| then:", after, "| readyState:", t.readyState)
    return t.readyState == "ended"
async def main():
    a = await scenario(True); b = await scenario(False)
    return 0 if a and b else 1
sys.exit(asyncio.run(main()))
