"""C14: a remote description without any a=setup line (no DTLS role at all) made __validate_description raise AttributeError ('NoneType' object has no attribute
'role') instead of ValueError; an offer of that kind got past the validation and failed half-way through setRemoteDescription, after transceivers had been created.

Run:  /venv/bin/python /verif/repro/c14_answer_without_setup.py     (exit 0 = behaves, exit 1 = defect present)
"""
import asyncio
import sys

from aiortc import RTCPeerConnection, RTCSessionDescription


def strip_setup(sdp: str) -> str:
    return "".join(l for l in sdp.splitlines(True) if not l.startswith("a=setup:"))


async def main() -> int:
    bad = []
    # 1. answer without a=setup while have-local-offer
    pc1, pc2 = RTCPeerConnection(), RTCPeerConnection()
    pc1.addTransceiver("audio")
    await pc1.setLocalDescription(await pc1.createOffer())
    await pc2.setRemoteDescription(pc1.localDescription)
    await pc2.setLocalDescription(await pc2.createAnswer())
    answer = RTCSessionDescription(sdp=strip_setup(pc2.localDescription.sdp), type="answer")
    try:
        await pc1.setRemoteDescription(answer)
        bad.append("answer without a=setup accepted")
    except ValueError:
        pass
    except Exception as e:      # noqa
        bad.append(f"answer without a=setup raises {type(e).__name__}: {e}")
    if pc1.signalingState != "have-local-offer" or pc1.remoteDescription is not None:
        bad.append(f"state after the refused answer: {pc1.signalingState}, remoteDescription {'set' if pc1.remoteDescription else 'None'}")
    # 2. offer without a=setup in stable
    pc3 = RTCPeerConnection()
    offer = RTCSessionDescription(sdp=strip_setup(pc1.localDescription.sdp), type="offer")
    try:
        await pc3.setRemoteDescription(offer)
        bad.append("offer without a=setup accepted")
    except ValueError:
        pass
    except Exception as e:      # noqa
        bad.append(f"offer without a=setup raises {type(e).__name__}: {e}")
    if pc3.signalingState != "stable" or pc3.remoteDescription is not None or pc3.getTransceivers():
        bad.append(f"after the refused offer: state {pc3.signalingState}, remoteDescription {'set' if pc3.remoteDescription else 'None'}, {len(pc3.getTransceivers())} transceiver(s) created")
    for pc in (pc1, pc2, pc3):
        await pc.close()
    for b in bad:
        print("FAIL:", b)
    print("ok" if not bad else f"{len(bad)} failures")
    return 1 if bad else 0


sys.exit(asyncio.run(main()))
