"""C18: a receiver that has seen more than 31 SSRCs put all report blocks into one RTCP RR packet.  The 5-bit count overflowed into the padding / version bits
(the peer cannot parse the packet), and from 256 streams on `pack_rtcp_packet` raised struct.error, which ended the receiver's RTCP task for good.

Run:  /venv/bin/python /verif/repro/c18_rr_more_than_31_streams.py     (exit 0 = behaves, exit 1 = defect present)
"""
import asyncio, sys, random
from unittest.mock import patch
from aiortc import RTCRtpReceiver
from aiortc.rtp import RtcpPacket, RtpPacket, RtcpRrPacket
from aiortc.rtcrtpparameters import RTCRtpCodecParameters


class FakeTransport:
    def __init__(self):
        self.sent = []
        self.state = "connected"
        self._stats = None
    def _register_rtp_receiver(self, *a): pass
    def _unregister_rtp_receiver(self, *a): pass
    async def _send_rtp(self, data):
        self.sent.append(data)


async def run(n):
    tr = FakeTransport()
    r = RTCRtpReceiver("audio", tr)
    r._RTCRtpReceiver__rtcp_ssrc = 99
    streams = r._RTCRtpReceiver__remote_streams
    from aiortc.rtcrtpreceiver import StreamStatistics
    for i in range(n):
        st = StreamStatistics(8000)
        st.add(RtpPacket(sequence_number=i, timestamp=0))
        streams[1000 + i] = st
    async def nosleep(_):
        if tr.sent or getattr(nosleep, "n", 0) > 0:
            raise asyncio.CancelledError
        nosleep.n = 1
    nosleep.n = 0
    err = None
    with patch("aiortc.rtcrtpreceiver.asyncio.sleep", nosleep):
        try:
            await r._run_rtcp()
        except Exception as e:          # noqa
            err = e
    if err is not None:
        return f"{n} streams: the RTCP task died with {type(err).__name__}: {err}"
    seen = []
    for d in tr.sent:
        try:
            for p in RtcpPacket.parse(d):
                if isinstance(p, RtcpRrPacket):
                    seen += [x.ssrc for x in p.reports]
        except ValueError as e:
            return f"{n} streams: the receiver report does not parse: {e}"
    if sorted(seen) != [1000 + i for i in range(n)]:
        return f"{n} streams: {len(seen)} report blocks arrived"
    return None


bad = [x for x in (asyncio.run(run(n)) for n in (1, 31, 32, 40, 300)) if x]
for b in bad:
    print("FAIL:", b)
print("ok" if not bad else f"{len(bad)} failures")
sys.exit(1 if bad else 0)
