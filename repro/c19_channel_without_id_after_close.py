import asyncio, sys
from aiortc import RTCPeerConnection
async def main():
    pc = RTCPeerConnection()
    dc = pc.createDataChannel("chat")
    await pc.close()
    print("after close(): channel", dc.readyState, "signaling", pc.signalingState)
    return 0 if dc.readyState == "closed" else 1
sys.exit(asyncio.run(main()))
