"""C05: "codec payloads ... after any such datagram the transport is still up and processes subsequent valid traffic normally".
An audio receiver gets valid PCMU / Opus packets, then ONE well-formed RTP packet whose payload is (a) empty or (b) not a valid Opus frame, then valid
packets again.  The decoder runs in a thread fed through a queue: the bad payload must not stop it."""
import asyncio, os, sys, threading
sys.path.insert(0, "/repo")
from aiortc.rtcrtpparameters import RTCRtpCodecParameters, RTCRtpReceiveParameters
from aiortc.rtcrtpreceiver import RemoteStreamTrack
from aiortc.rtp import RtpPacket
from tests.test_rtcrtpreceiver import create_receiver
from aiortc.codecs import PCMU_CODEC
from aiortc.codecs.opus import OpusEncoder
import av, fractions

OPUS = RTCRtpCodecParameters(mimeType="audio/opus", clockRate=48000, channels=2, payloadType=111)


def opus_payloads(n):
    enc = OpusEncoder(); out = []
    for i in range(n):
        f = av.AudioFrame(format="s16", layout="stereo", samples=960); f.sample_rate = 48000; f.pts = i * 960; f.time_base = fractions.Fraction(1, 48000)
        for p in f.planes: p.update(bytes(p.buffer_size))
        out.append(enc.encode(f)[0][0])
    return out


async def scenario(label, codec, good, bad, step):
    errors = []
    threading.excepthook = lambda a: errors.append(a.exc_type.__name__)
    async with create_receiver("audio") as receiver:
        receiver._track = RemoteStreamTrack(kind="audio")
        await receiver.receive(RTCRtpReceiveParameters(codecs=[codec]))
        seq = 0
        async def feed(payload):
            nonlocal seq
            p = RtpPacket(payload_type=codec.payloadType, sequence_number=seq, timestamp=seq * step, ssrc=1234, payload=payload)
            seq += 1
            await receiver._handle_rtp_packet(p, arrival_time_ms=seq * 20)
        for i in range(8):
            await feed(good[i])
        await feed(bad)
        for i in range(8, 24):
            await feed(good[i])
        await asyncio.sleep(0.5)
        n = 0
        while True:
            try:
                await asyncio.wait_for(receiver.track.recv(), 0.2); n += 1
            except asyncio.TimeoutError:
                break
        alive = receiver._RTCRtpReceiver__decoder_thread.is_alive()
        print(f"{label}: {n} frames decoded out of 24 valid packets, decoder thread alive: {alive}, uncaught in thread: {errors}")
        await receiver.stop()
        return n >= 12 and alive


async def main():
    pcmu = [bytes([0xff]) * 160] * 24
    opus = opus_payloads(24)
    ok = await scenario("PCMU, one packet with an empty payload", PCMU_CODEC, pcmu, b"", 160)
    ok &= await scenario("Opus, one packet with an empty payload", OPUS, opus, b"", 960)
    ok &= await scenario("Opus, one packet with a garbage payload", OPUS, opus, b"\x03\xff", 960)
    print("OK" if ok else "FAIL: a single bad audio payload stops the decoder for the rest of the session")
    return 0 if ok else 1
sys.exit(asyncio.run(main()))
