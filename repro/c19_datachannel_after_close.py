"""C19: after close() every data channel is closed.  A channel created after close() (the application's "re-open on close" handler) must not stay `connecting`."""
import asyncio, sys
sys.path.insert(0, "/repo/src")
from aiortc import RTCPeerConnection
from aiortc.exceptions import InvalidStateError


async def main():
    pc = RTCPeerConnection()
    pc.createDataChannel("first")
    await pc.close()
    try:
        ch = pc.createDataChannel("again")
    except InvalidStateError as e:
        print("createDataChannel after close():", type(e).__name__, e)
        print("OK")
        return 0
    await asyncio.sleep(0.2)
    print("createDataChannel after close() returned a channel in state", ch.readyState)
    ok = ch.readyState == "closed"
    print("OK" if ok else "FAIL: a data channel of a closed connection is not closed and never will be")
    return 0 if ok else 1
sys.exit(asyncio.run(main()))
