import asyncio, sys
sys.path.insert(0, "/repo")
from aiortc.rtcsctptransport import RTCSctpTransport, InitChunk
from aiortc.rtcdtlstransport import RTCDtlsTransport
from tests.test_rtcsctptransport import dummy_dtls_transport_pair

async def main():
    async with dummy_dtls_transport_pair() as (ct, st):
        server = RTCSctpTransport(st)
        sent = []
        orig = st._send_data
        async def rec(data): sent.append(data)
        st._send_data = rec
        # receive window driven negative by a peer that ignores it (reachable: DATA keeps being accepted)
        server._remote_port = 5000
        server._advertised_rwnd = int(sys.argv[1])
        init = InitChunk(); init.initiate_tag = 1; init.advertised_rwnd = 1024; init.outbound_streams = 1; init.inbound_streams = 1; init.initial_tsn = 7
        from aiortc.rtcsctptransport import serialize_packet
        try:
            await server._handle_data(serialize_packet(5000, 5000, 0, init))
            print("OK: INIT answered,", len(sent), "packet(s) sent")
            return 0
        except Exception as e:
            print("FAIL:", type(e).__name__, e, "escaped _handle_data (the DTLS receive loop would close the transport)")
            return 1
sys.exit(asyncio.run(main()))
