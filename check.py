#!/venv/bin/python
"""Entry point of every registered check:  check.py <ID> --tier quick|thorough [--replay FILE]

exit 0 = every obligation of every rule instance discharged (KNOWN-FINDING lines allowed)
exit 1 = VIOLATION line printed (a violation not listed in known_findings.txt)
exit 2 = ANALYSIS-ERROR: the checker itself could not decide (anchor vanished, ...)
"""
from __future__ import annotations

import argparse
import importlib
import json
import os
import sys
import traceback

HERE = os.path.dirname(os.path.abspath(__file__))
sys.path.insert(0, HERE)
sys.setrecursionlimit(10000)


def main() -> int:
    ap = argparse.ArgumentParser()
    ap.add_argument("prop")
    ap.add_argument("--tier", default=os.environ.get("VERIF_TIER", "quick"), choices=["quick", "thorough"])
    ap.add_argument("--replay", default=None)
    ap.add_argument("--src", default=None, help="alternative source root (self-validation)")
    args = ap.parse_args()
    seed = int(os.environ.get("VERIF_SEED", "0") or 0)
    prop = args.prop.upper()
    from engine.index import AnalysisError, Program
    from engine.report import Report

    try:
        mod = importlib.import_module(f"rules.{prop}")
    except ModuleNotFoundError as e:
        print(f"ANALYSIS-ERROR property={prop} no rule module: {e}")
        return 2
    try:
        prog = Program(args.src) if args.src else Program()
        rep = Report(prop, args.tier, seed)
        rep.analysed["source_root"] = prog.src_root
        rep.analysed["source_digest"] = prog.digest
        rep.analysed["modules"] = len(prog.modules)
        rep.analysed["functions"] = len(prog.functions)
        rep.analysed["classes"] = len(prog.classes)
        mod.run(rep, prog, args.tier)
        selftest_error = None
        if args.tier == "thorough" and not args.src:
            from engine.selftest import run_selftest

            try:
                run_selftest(rep, mod, prog, seed)
            except AnalysisError as e:
                selftest_error = e
        if args.replay:
            with open(args.replay) as fh:
                want = json.load(fh)
            keys = {(v["rule"], v["function"], v["construct"]) for v in want.get("violations", [])}
            for f in rep.findings:
                if f.key in keys:
                    print("REPLAY " + f.text())
                    for w in f.witness:
                        print("    via " + w)
        rc = rep.finish()
        if selftest_error is not None and rc == 0:
            print(f"ANALYSIS-ERROR property={prop} {selftest_error}")
            return 2
        return rc
    except AnalysisError as e:
        print(f"ANALYSIS-ERROR property={prop} {e}")
        return 2
    except Exception:
        traceback.print_exc()
        print(f"ANALYSIS-ERROR property={prop} internal error in the checker (traceback above)")
        return 2


if __name__ == "__main__":
    sys.exit(main())
